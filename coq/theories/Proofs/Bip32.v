(* BIP32: the model of bip32.py refines Spec/Bip32.v, for every HMAC function,
   every HASH160 function and every curve satisfying curve_laws. *)
From BHW Require Import Lib.Base Lib.Digits Lib.ListAux Model.Helper Model.Keys Model.Bip32M
  Spec.Curve Spec.Bip32 Proofs.Endian.
From BHWGen Require Import Consts.

Lemma curve_order_lt : CURVE_ORDER < 256 ^ Z.of_nat 32.
Proof. vm_compute. reflexivity. Qed.
Lemma curve_order_pos : 2 <= CURVE_ORDER.
Proof. vm_compute. intros H; discriminate. Qed.
Lemma hardened_val : HARDENED = 2147483648.
Proof. reflexivity. Qed.
Lemma pow32 : 256 ^ Z.of_nat 4 = 4294967296.
Proof. reflexivity. Qed.

Section Bip32Proofs.
Variable C : curve.
Hypothesis laws : curve_laws C.
Hypothesis order_eq : order C = CURVE_ORDER.
Variable hmac512 : bytes -> bytes -> bytes.
Variable hash160 : bytes -> bytes.
Hypothesis hmac_len : forall k d, length (hmac512 k d) = 64%nat.
Hypothesis hmac_wf : forall k d, wf_bytes (hmac512 k d).
Hypothesis hash160_len : forall x, length (hash160 x) = 20%nat.
Set Default Proof Using "All".

Notation n := CURVE_ORDER.
Notation private_key := (private_key C).
Notation public_key := (public_key C).
Notation ckd_prv := (ckd_prv C hmac512).
Notation ckd_pub := (ckd_pub C hmac512).
Notation parent_fingerprint := (parent_fingerprint C hash160).
Notation fingerprint := (fingerprint C hash160).

(* a private node whose stored key (32 bytes, or 33 with a 00 prefix) is a scalar in [1, n-1] *)
Definition valid_prv (nd : node) : Prop :=
  is_prv nd = true /\ wf_bytes (nkey nd) /\
  (length (nkey nd) = 32%nat \/ (length (nkey nd) = 33%nat /\ hd 1 (nkey nd) = 0)) /\
  1 <= be2z (nkey nd) < n.

Definition scalar (nd : node) : Z := be2z (nkey nd).

Lemma ser256_z2be k : 0 <= k < 256 ^ Z.of_nat 32 -> z2be 32 k = Ok (ser256 k).
Proof.
  intros H. unfold z2be, z2le, ser256, be.
  destruct ((k <? 0) || (256 ^ Z.of_nat 32 <=? k)) eqn:E; [lia|reflexivity].
Qed.
Lemma ser32_z2be i : 0 <= i < 4294967296 -> z2be 4 i = Ok (ser32 i).
Proof.
  intros H. unfold z2be, z2le, ser32, be. rewrite pow32.
  destruct ((i <? 0) || (4294967296 <=? i)) eqn:E; [lia|reflexivity].
Qed.
Lemma parse256_be2z b : parse256 b = be2z b.
Proof. unfold parse256. symmetry. apply be2z_rev'. Qed.

Lemma ser256_props k : 0 <= k < 256 ^ Z.of_nat 32 ->
  length (ser256 k) = 32%nat /\ wf_bytes (ser256 k) /\ be2z (ser256 k) = k.
Proof.
  intros H. destruct (z2be_ok 32 k H) as [bs [H1 [H2 [H3 H4]]]].
  rewrite ser256_z2be in H1 by exact H. inversion H1; subst bs. auto.
Qed.

Lemma privkey_of_bytes_ok b :
  wf_bytes b -> length b = 32%nat -> 1 <= be2z b < n ->
  exists K, privkey_of_bytes C b = Ok (b, K) /\ G_mul C (be2z b) = Some K.
Proof.
  intros Hw Hl Hr. unfold privkey_of_bytes. rewrite Hl. cbn [Nat.eqb negb].
  change (negb (32 =? 32)%nat) with false. cbv iota. rewrite order_eq.
  destruct ((be2z b <? 1) || (n <=? be2z b)) eqn:E; [lia|].
  destruct (G_mul C (be2z b)) as [K|] eqn:EK.
  - exists K. split; [|reflexivity]. rewrite <- Hl at 1. rewrite z2be_be2z by exact Hw. reflexivity.
  - exfalso. apply (G_mul_some C laws (be2z b)); [rewrite order_eq; lia|exact EK].
Qed.

Lemma privkey_of_bytes_bad b :
  length b <> 32%nat \/ be2z b < 1 \/ n <= be2z b -> privkey_of_bytes C b = Err.
Proof.
  intros H. unfold privkey_of_bytes.
  destruct (length b =? 32)%nat eqn:El; cbn [negb]; [|reflexivity].
  apply Nat.eqb_eq in El. rewrite order_eq.
  destruct ((be2z b <? 1) || (n <=? be2z b)) eqn:E; [reflexivity|]. lia.
Qed.

(* the 32-byte body of a valid node's key *)
Definition key32 (nd : node) : bytes :=
  if (length (nkey nd) =? 33)%nat then tl (nkey nd) else nkey nd.

Lemma key32_props nd : valid_prv nd ->
  wf_bytes (key32 nd) /\ length (key32 nd) = 32%nat /\ be2z (key32 nd) = scalar nd.
Proof.
  intros [_ [Hw [Hl Hr]]]. unfold key32, scalar. destruct Hl as [Hl|[Hl Hh]].
  - rewrite Hl. cbn. auto.
  - rewrite Hl. cbn [Nat.eqb]. destruct (nkey nd) as [|x r]; [discriminate|].
    simpl in Hh. subst x. cbn [tl]. split; [inversion Hw; assumption|].
    split; [simpl in Hl; lia|]. symmetry. apply be2z_cons0.
Qed.

Lemma private_key_valid nd : valid_prv nd ->
  exists K, private_key nd = Ok (key32 nd, K) /\ G_mul C (scalar nd) = Some K.
Proof.
  intros Hv. destruct (key32_props nd Hv) as [Hw [Hl Hs]].
  destruct Hv as [_ [Hwk [Hlk Hr]]].
  destruct (privkey_of_bytes_ok (key32 nd) Hw Hl) as [K [HK HG]].
  { rewrite Hs. exact Hr. }
  exists K. rewrite Hs in HG. split; [|exact HG].
  unfold Bip32M.private_key, key32 in *. destruct Hlk as [Hlk|[Hlk Hh]].
  - rewrite Hlk in *. cbn [Nat.eqb] in *.
    destruct (nkey nd) as [|x r]; [exact HK|]. destruct x; exact HK.
  - rewrite Hlk in *. cbn [Nat.eqb] in *.
    destruct (nkey nd) as [|x r]; [discriminate|]. simpl in Hh. subst x. exact HK.
Qed.

Lemma public_key_valid nd : valid_prv nd ->
  exists K, public_key nd = Ok K /\ G_mul C (scalar nd) = Some K.
Proof.
  intros Hv. destruct (private_key_valid nd Hv) as [K [H1 H2]]. exists K. split; [|exact H2].
  unfold Bip32M.public_key. destruct Hv as [Hp _]. rewrite Hp, H1. reflexivity.
Qed.

Lemma public_key_of_valid nd K : valid_prv nd -> G_mul C (scalar nd) = Some K -> public_key nd = Ok K.
Proof.
  intros Hv HG. destruct (public_key_valid nd Hv) as [K' [H1 H2]]. rewrite HG in H2.
  inversion H2; subst K'. exact H1.
Qed.

Lemma scalar_child nd kb ch i : scalar (child_of nd kb ch i) = be2z kb.
Proof. reflexivity. Qed.

(* the Spec view of a private node; the fingerprint field is supplied separately *)
Definition abs_prv (nd : node) (fpr : bytes) : xprv :=
  {| x_k := scalar nd; x_c := nchain nd; x_depth := ndepth nd; x_fpr := fpr; x_idx := nindex nd |}.

Lemma take32_hmac k d : length (take 32 (hmac512 k d)) = 32%nat /\ wf_bytes (take 32 (hmac512 k d)).
Proof.
  unfold take. split; [rewrite firstn_length, hmac_len; reflexivity|apply Forall_firstn, hmac_wf].
Qed.

Lemma child_fingerprint par key chain i K :
  public_key par = Ok K ->
  parent_fingerprint (child_of par key chain i) = Ok (fingerprint_of C hash160 K).
Proof.
  intros HK. unfold Bip32M.parent_fingerprint, child_of. cbn [nparent].
  unfold Bip32M.fingerprint. rewrite HK. cbn [bind rmap].
  unfold fingerprint_of, take.
  destruct (firstn 4 (hash160 (ser_c C K))) as [|x r] eqn:E; [|reflexivity].
  apply (f_equal (@length Z)) in E. rewrite firstn_length, hash160_len in E. discriminate.
Qed.

(* ---- C01: CKDpriv ---- *)
Theorem ckd_prv_spec nd i fpr :
  valid_prv nd -> 0 <= i < 4294967296 ->
  match CKDpriv C hmac512 hash160 (abs_prv nd fpr) i with
  | Some x => exists c, ckd_prv nd i = Ok c /\ valid_prv c /\ length (nkey c) = 32%nat /\
                        parent_fingerprint c = Ok (x_fpr x) /\ abs_prv c (x_fpr x) = x
  | None => ckd_prv nd i = Err
  end.
Proof.
  intros Hv Hi. destruct (private_key_valid nd Hv) as [K [Hpk HG]].
  destruct (public_key_valid nd Hv) as [K' [Hpub HG']]. rewrite HG in HG'. inversion HG'; subst K'. clear HG'.
  destruct (key32_props nd Hv) as [Hkw [Hkl Hks]].
  assert (Hsr : 0 <= scalar nd < 256 ^ Z.of_nat 32).
  { destruct Hv as [_ [_ [_ Hr]]]. pose proof curve_order_lt. unfold scalar. lia. }
  assert (Hk32 : key32 nd = ser256 (scalar nd)).
  { destruct (ser256_props (scalar nd) Hsr) as [A [B D]].
    apply be2z_inj; auto; congruence. }
  unfold CKDpriv, point. cbn [abs_prv x_k x_c x_depth x_idx]. rewrite HG.
  unfold Bip32M.ckd_prv. rewrite Hpk, Hpub. cbn [bind fst]. rewrite hardened_val.
  unfold hardened, int_to_big_endian. rewrite ser32_z2be by exact Hi. cbn [bind].
  (* both sides build the same HMAC input *)
  set (data := if 2147483648 <=? i then 0 :: ser256 (scalar nd) ++ ser32 i else ser_c C K ++ ser32 i).
  assert (Hdata : (if 2147483648 <=? i then Ok (0 :: key32 nd ++ ser32 i) else Ok (ser_c C K ++ ser32 i)) = Ok data).
  { unfold data. destruct (2147483648 <=? i); [rewrite Hk32|]; reflexivity. }
  rewrite Hdata.
  cbn [bind]. set (I := hmac512 (nchain nd) data).
  destruct (take32_hmac (nchain nd) data) as [HILl HILw]. fold I in HILl, HILw.
  unfold big_endian_to_int. rewrite parse256_be2z. change (firstn 32 I) with (take 32 I).
  set (IL := be2z (take 32 I)). rewrite Hks, order_eq.
  destruct (n <=? IL) eqn:E1; cbn [orb]; [reflexivity|].
  destruct ((IL + scalar nd) mod n =? 0) eqn:E2; [reflexivity|].
  pose proof curve_order_pos as Hn2. pose proof curve_order_lt as Hnlt.
  assert (Hki : 0 < (IL + scalar nd) mod n < n).
  { pose proof (Z.mod_pos_bound (IL + scalar nd) n ltac:(lia)). lia. }
  set (ki := (IL + scalar nd) mod n) in *.
  rewrite ser256_z2be by lia. cbn [bind].
  destruct (ser256_props ki ltac:(lia)) as [A [B D]].
  eexists. split; [reflexivity|].
  assert (Hvc : valid_prv (child_of nd (ser256 ki) (drop 32 I) i)).
  { unfold valid_prv, child_of. cbn [is_prv nkey]. destruct Hv as [Hp _].
    split; [exact Hp|]. split; [exact B|]. split; [left; exact A|]. rewrite D. lia. }
  split; [exact Hvc|]. split; [exact A|].
  split; [apply child_fingerprint; exact Hpub|].
  unfold abs_prv, child_of, scalar. cbn [nkey nchain ndepth nindex]. rewrite D. reflexivity.
Qed.

Theorem ckd_prv_out_of_range nd i : i < 0 \/ 4294967296 <= i -> valid_prv nd -> ckd_prv nd i = Err.
Proof.
  intros Hi Hv. destruct (private_key_valid nd Hv) as [K [Hpk HG]].
  destruct (public_key_valid nd Hv) as [K' [Hpub _]].
  unfold Bip32M.ckd_prv. rewrite Hpk, Hpub. cbn [bind]. unfold int_to_big_endian.
  rewrite z2be_err by (rewrite pow32; lia). destruct (HARDENED <=? i); reflexivity.
Qed.

(* paths of any length *)
Theorem derive_path_spec path : forall nd fpr,
  valid_prv nd -> is_prv nd = true -> Forall (fun i => 0 <= i < 4294967296) path ->
  parent_fingerprint nd = Ok fpr ->
  match derive_prv C hmac512 hash160 (abs_prv nd fpr) path with
  | Some x => exists c, derive_path C hmac512 nd path = Ok c /\ valid_prv c /\
                        parent_fingerprint c = Ok (x_fpr x) /\ abs_prv c (x_fpr x) = x
  | None => derive_path C hmac512 nd path = Err
  end.
Proof.
  induction path as [|i r IH]; intros nd fpr Hv Hp Hr Hf.
  - cbn [derive_prv derive_path]. exists nd. auto.
  - cbn [derive_prv derive_path]. unfold ckd. rewrite Hp.
    pose proof (Forall_inv Hr) as Hi. pose proof (Forall_inv_tail Hr) as Hr'.
    pose proof (ckd_prv_spec nd i fpr Hv Hi) as Hs.
    destruct (CKDpriv C hmac512 hash160 (abs_prv nd fpr) i) as [x|].
    + destruct Hs as [c [Hc [Hvc [_ [Hfc Ha]]]]]. rewrite Hc. cbn [bind].
      specialize (IH c (x_fpr x) Hvc ltac:(destruct Hvc; assumption) Hr' Hfc).
      rewrite Ha in IH. exact IH.
    + rewrite Hs. reflexivity.
Qed.

(* ---- serialisation of a private node = Spec.ser_prv ---- *)
Theorem serialize_private_spec nd v fpr :
  valid_prv nd -> 0 <= v < 4294967296 -> 0 <= ndepth nd < 256 -> 0 <= nindex nd < 4294967296 ->
  parent_fingerprint nd = Ok fpr -> (is_master nd = true -> fpr = [0;0;0;0]) ->
  serialize_private C hash160 nd (Some v) = Ok (ser_prv v (abs_prv nd fpr)).
Proof.
  intros Hv Hver Hd Hi Hf Hm. destruct (private_key_valid nd Hv) as [K [Hpk HG]].
  destruct (key32_props nd Hv) as [Hkw [Hkl Hks]].
  assert (Hsr : 0 <= scalar nd < 256 ^ Z.of_nat 32).
  { destruct Hv as [_ [_ [_ Hr]]]. pose proof curve_order_lt. unfold scalar. lia. }
  assert (Hk32 : key32 nd = ser256 (scalar nd)).
  { destruct (ser256_props (scalar nd) Hsr) as [A [B D]]. apply be2z_inj; auto; congruence. }
  unfold serialize_private, serialize_node. rewrite Hpk. cbn [bind fst]. unfold int_to_big_endian.
  rewrite !ser32_z2be by lia. cbn [bind].
  assert (Hd1 : z2be 1 (ndepth nd) = Ok (be 1 (ndepth nd))).
  { unfold z2be, z2le, be. change (256 ^ Z.of_nat 1) with 256.
    destruct ((ndepth nd <? 0) || (256 <=? ndepth nd)) eqn:E; [lia|reflexivity]. }
  rewrite Hd1. cbn [bind].
  assert (Hfp : (if is_master nd then Ok (ser32 0) else parent_fingerprint nd) = Ok fpr).
  { destruct (is_master nd) eqn:Em; [|exact Hf]. rewrite (Hm eq_refl). reflexivity. }
  rewrite Hfp. cbn [bind]. unfold ser_prv. cbn [abs_prv x_depth x_fpr x_idx x_c x_k].
  rewrite Hk32. reflexivity.
Qed.

(* ---- C18: invalid children are reported, never returned ---- *)
Theorem ckd_prv_invalid_iff nd i fpr :
  valid_prv nd -> 0 <= i < 4294967296 ->
  (ckd_prv nd i = Err <-> CKDpriv C hmac512 hash160 (abs_prv nd fpr) i = None).
Proof.
  intros Hv Hi. pose proof (ckd_prv_spec nd i fpr Hv Hi) as H.
  destruct (CKDpriv C hmac512 hash160 (abs_prv nd fpr) i) as [x|].
  - destruct H as [c [Hc _]]. rewrite Hc. split; discriminate.
  - tauto.
Qed.

Theorem master_key_spec seed sk t :
  match master C hmac512 seed sk with
  | Some x => exists nd, master_key hmac512 seed sk t = Ok nd /\ valid_prv nd /\
                         parent_fingerprint nd = Ok [0;0;0;0] /\ abs_prv nd [0;0;0;0] = x /\
                         is_master nd = true /\ ntestnet nd = t
  | None => master_key hmac512 seed sk t = Err
  end.
Proof.
  unfold master, master_key, big_endian_to_int. rewrite parse256_be2z. change (firstn 32 (hmac512 sk seed)) with (take 32 (hmac512 sk seed)).
  destruct (take32_hmac sk seed) as [Hl Hw].
  set (IL := be2z (take 32 (hmac512 sk seed))). rewrite order_eq.
  destruct (IL =? 0) eqn:E0; cbn [orb]; [reflexivity|].
  destruct (n <=? IL) eqn:E1; [reflexivity|].
  eexists. split; [reflexivity|].
  pose proof (be2z_range _ Hw) as Hr. fold IL in Hr.
  split; [|split; [reflexivity|split; [reflexivity|split; reflexivity]]].
  unfold valid_prv. cbn [is_prv nkey]. split; [reflexivity|]. split; [exact Hw|]. split; [left; exact Hl|].
  fold IL. lia.
Qed.

(* ---- C02: public derivation agrees with private derivation ---- *)
Definition pub_of (nd pn : node) (K : pt C) : Prop :=
  is_prv pn = false /\ nkey pn = ser_c C K /\ public_key nd = Ok K /\
  nchain pn = nchain nd /\ ndepth pn = ndepth nd /\ nindex pn = nindex nd /\ ntestnet pn = ntestnet nd.

Lemma public_key_pub pn K : is_prv pn = false -> nkey pn = ser_c C K -> public_key pn = Ok K.
Proof.
  intros Hp Hk. unfold Bip32M.public_key, pubkey_parse. rewrite Hp, Hk, (parse_ser_c C laws). reflexivity.
Qed.

Lemma pub_of_child nd pn kb ch i Ki :
  is_prv pn = false -> valid_prv (child_of nd kb ch i) -> G_mul C (be2z kb) = Some Ki ->
  ndepth pn = ndepth nd -> ntestnet pn = ntestnet nd ->
  pub_of (child_of nd kb ch i) (child_of pn (ser_c C Ki) ch i) Ki.
Proof.
  intros Hpp Hvc HG Hd Ht. unfold pub_of.
  split; [exact Hpp|]. split; [reflexivity|]. split.
  { apply public_key_of_valid; [exact Hvc|]. rewrite scalar_child. exact HG. }
  unfold child_of. cbn [nchain ndepth nindex ntestnet]. rewrite Hd, Ht. auto.
Qed.

Theorem pub_hardened_refused pn i : 2147483648 <= i -> ckd_pub pn i = Err.
Proof.
  intros H. unfold Bip32M.ckd_pub. rewrite hardened_val.
  destruct (2147483648 <=? i) eqn:E; [reflexivity|lia].
Qed.

Theorem ckd_pub_priv_agree nd pn K i :
  valid_prv nd -> pub_of nd pn K -> 0 <= i < 2147483648 ->
  let IL := be2z (take 32 (hmac512 (nchain nd) (ser_c C K ++ ser32 i))) in
  match ckd_prv nd i with
  | Ok c => if IL =? 0 then ckd_pub pn i = Err
            else exists c' Kc, ckd_pub pn i = Ok c' /\ pub_of c c' Kc /\
                               parent_fingerprint c' = parent_fingerprint c
  | Err => ckd_pub pn i = Err
  end.
Proof.
  intros Hv [Hpp [Hpk [HpK [Hpc [Hpd [Hpi Hpt]]]]]] Hi IL.
  destruct (private_key_valid nd Hv) as [K0 [Hprv HG]].
  assert (K0 = K).
  { unfold Bip32M.public_key in HpK. destruct Hv as [Hp _]. rewrite Hp, Hprv in HpK. inversion HpK. reflexivity. }
  subst K0. destruct (key32_props nd Hv) as [Hkw [Hkl Hks]].
  pose proof curve_order_pos as Hn2. pose proof curve_order_lt as Hnlt.
  unfold Bip32M.ckd_prv, Bip32M.ckd_pub. rewrite hardened_val, HpK, Hprv.
  destruct (2147483648 <=? i) eqn:Eh; [lia|]. cbn [bind fst].
  unfold int_to_big_endian. rewrite ser32_z2be by lia. cbn [bind].
  rewrite (public_key_pub pn K Hpp Hpk). cbn [bind]. rewrite Hpk, Hpc.
  set (I := hmac512 (nchain nd) (ser_c C K ++ ser32 i)) in *.
  destruct (take32_hmac (nchain nd) (ser_c C K ++ ser32 i)) as [HILl HILw]. fold I in HILl, HILw.
  unfold big_endian_to_int. fold IL. rewrite Hks.
  destruct (n <=? IL) eqn:E1; [reflexivity|].
  pose proof (be2z_range _ HILw) as HILr. fold IL in HILr.
  destruct ((IL + scalar nd) mod n =? 0) eqn:E2.
  - (* private side refuses: ki = 0, so IL.G + K is the point at infinity *)
    destruct (IL =? 0) eqn:E0.
    + rewrite privkey_of_bytes_bad by (right; left; fold IL; lia). reflexivity.
    + destruct (privkey_of_bytes_ok (take 32 I) HILw HILl) as [KIL [Hil HGil]]; [fold IL; lia|].
      rewrite Hil. cbn [bind snd]. fold IL in HGil.
      rewrite <- HGil, <- HG, <- (G_mul_add C laws), <- (G_mul_mod C laws), order_eq.
      assert (Hz : (IL + scalar nd) mod n = 0) by lia. rewrite Hz, (G_mul_zero C laws). reflexivity.
  - assert (Hki : 0 < (IL + scalar nd) mod n < n).
    { pose proof (Z.mod_pos_bound (IL + scalar nd) n ltac:(lia)). lia. }
    set (ki := (IL + scalar nd) mod n) in *.
    rewrite ser256_z2be by lia. cbn [bind].
    destruct (IL =? 0) eqn:E0.
    + rewrite privkey_of_bytes_bad by (right; left; fold IL; lia). reflexivity.
    + destruct (privkey_of_bytes_ok (take 32 I) HILw HILl) as [KIL [Hil HGil]]; [fold IL; lia|].
      rewrite Hil. cbn [bind snd]. fold IL in HGil.
      assert (Hsum : padd C (Some KIL) (Some K) = G_mul C ki).
      { rewrite <- HGil, <- HG, <- (G_mul_add C laws). unfold ki.
        rewrite <- order_eq. symmetry. apply (G_mul_mod C laws). }
      rewrite Hsum. destruct (G_mul C ki) as [Ki|] eqn:EKi.
      2:{ exfalso. apply (G_mul_some C laws ki); [rewrite order_eq; lia|exact EKi]. }
      destruct (ser256_props ki ltac:(lia)) as [A [B D]].
      assert (Hvc : valid_prv (child_of nd (ser256 ki) (drop 32 I) i)).
      { unfold valid_prv, child_of. cbn [is_prv nkey]. destruct Hv as [Hp _].
        split; [exact Hp|]. split; [exact B|]. split; [left; exact A|]. rewrite D. lia. }
      eexists. exists Ki. split; [reflexivity|]. split.
      * apply pub_of_child; auto. rewrite D. exact EKi.
      * rewrite (child_fingerprint pn _ _ _ K (public_key_pub pn K Hpp Hpk)).
        rewrite (child_fingerprint nd _ _ _ K HpK). reflexivity.
Qed.

(* soundness along paths: whatever public-only derivation returns is the neutered private derivation *)
Theorem derive_pub_sound path : forall nd pn K c',
  valid_prv nd -> pub_of nd pn K -> Forall (fun i => 0 <= i) path ->
  derive_path C hmac512 pn path = Ok c' ->
  exists c Kc, derive_path C hmac512 nd path = Ok c /\ valid_prv c /\ pub_of c c' Kc /\
               (path <> [] -> parent_fingerprint c' = parent_fingerprint c).
Proof.
  induction path as [|i r IH]; intros nd pn K c' Hv Hpo Hr Hd.
  - cbn [derive_path] in *. inversion Hd; subst c'. exists nd, K. split; [reflexivity|].
    split; [exact Hv|]. split; [exact Hpo|]. intros H; contradiction.
  - cbn [derive_path] in *. unfold ckd in *.
    destruct Hpo as [Hpp Hrest]. rewrite Hpp in Hd. destruct Hv as [Hp Hv'].
    rewrite Hp. pose proof (Forall_inv Hr) as Hi. pose proof (Forall_inv_tail Hr) as Hr'.
    cbv beta in Hi.
    destruct (Z_lt_ge_dec i 2147483648) as [Hlt|Hge].
    2:{ rewrite pub_hardened_refused in Hd by lia. discriminate. }
    pose proof (ckd_pub_priv_agree nd pn K i (conj Hp Hv') (conj Hpp Hrest) ltac:(lia)) as Hag.
    cbv zeta in Hag.
    pose proof (ckd_prv_spec nd i [] (conj Hp Hv') ltac:(lia)) as Hsp.
    destruct (ckd_prv nd i) as [c|] eqn:Ec.
    + destruct (be2z (take 32 (hmac512 (nchain nd) (ser_c C K ++ ser32 i))) =? 0).
      { rewrite Hag in Hd. discriminate. }
      destruct Hag as [c1 [Kc [Hc1 [Hpo1 Hf1]]]]. rewrite Hc1 in Hd. cbn [bind] in *.
      assert (Hvc : valid_prv c).
      { destruct (CKDpriv C hmac512 hash160 (abs_prv nd []) i); [|discriminate].
        destruct Hsp as [c0 [E0 [Hv0 _]]]. inversion E0; subst c0. exact Hv0. }
      destruct (IH c c1 Kc c' Hvc Hpo1 Hr' Hd) as [cf [Kf [D1 [D2 [D3 D4]]]]].
      exists cf, Kf. split; [exact D1|]. split; [exact D2|]. split; [exact D3|].
      intros _. destruct r as [|j r'].
      * cbn [derive_path] in *. inversion Hd; inversion D1; subst. exact Hf1.
      * apply D4. discriminate.
    + rewrite Hag in Hd. discriminate.
Qed.

End Bip32Proofs.
