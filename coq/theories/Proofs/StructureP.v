(* The structure of the library modules the models were written against (see harness/regen.py gen_structure for
   the meaning of each fact): the pinned copy below was produced from the sources at the time the models were
   validated and reviewed by hand; gen/Structure.v is regenerated from /repo on every run.  `structure_ok mods`
   is the premise "no hidden state, no new override, no new decorator, same fields" for the modules a property
   rests on; each Props/Cxx.v proves it for its own module list by evaluation.  When it fails the check searches for
   a failing input as usual and, finding none, reports the property as no longer shown to hold. *)
From Coq Require Import List String Bool.
Import ListNotations.
From BHWGen Require Import Structure.
Open Scope string_scope.

Definition pinned : list (string * list (string * string)) :=
  [("__init__",
    []);
   ("__main__",
    [("import", "os");
     ("import", "sys")]);
   ("base_wallet",
    [("classvar", "BaseWallet.__slots__=('mnemonic', 'testnet', 'password', 'master', 'bip85')");
     ("nonlocal", "BaseWallet.from_mnemonic:wallet.mnemonic:store");
     ("nonlocal", "BaseWallet.from_mnemonic:wallet.password:store")]);
   ("bech32",
    []);
   ("bip32",
    [("classvar", "PubKeyNode.__slots__=('parent', 'key', 'chain_code', 'depth', 'index', 'parsed_parent_fingerprint', 'parsed_version', 'testnet', 'children')");
     ("modvar", "Prv_or_PubKeyNode=Subscript");
     ("nonlocal", "PrvKeyNode.ckd:self.children:append");
     ("nonlocal", "PubKeyNode._parse:key.parsed_version:store");
     ("nonlocal", "PubKeyNode.ckd:self.children:append");
     ("override", "PrvKeyNode.ckd");
     ("override", "PrvKeyNode.public_key")]);
   ("bip39",
    [("import", "random");
     ("import", "re");
     ("modvar", "random=call:random.SystemRandom")]);
   ("bip85",
    []);
   ("helper",
    [("nonlocal", "merkle_parent_level:hashes:append")]);
   ("keys",
    [("classvar", "PrivateKey.__slots__=('k', 'K')");
     ("classvar", "PublicKey.__slots__='K'");
     ("modvar", "CURVE_GEN=Attribute");
     ("modvar", "CURVE_ORDER=call:CURVE_GEN.order");
     ("modvar", "FIELD_ORDER=call:SECP256k1.curve.p");
     ("modvar", "INFINITY=Attribute");
     ("modvar", "SECP256k1=Attribute")]);
   ("op",
    []);
   ("paper_wallet",
    [("import", "json");
     ("import", "os");
     ("import", "sys")]);
   ("ripemd",
    []);
   ("script",
    []);
   ("wallet_utils",
    [("classvar", "Bip32Path.__slots__=('purpose', 'coin_type', 'account', 'chain', 'addr_index', 'private')");
     ("classvar", "Version.__slots__=('key_type', 'bip_type', 'testnet')")])].

Fixpoint assoc {A} (k : string) (l : list (string * A)) : option A :=
  match l with [] => None | (k', v) :: r => if String.eqb k k' then Some v else assoc k r end.
Definition fact_eqb (a b : string * string) : bool := String.eqb (fst a) (fst b) && String.eqb (snd a) (snd b).
Fixpoint facts_eqb (a b : list (string * string)) : bool :=
  match a, b with
  | [], [] => true
  | x :: r, y :: s => fact_eqb x y && facts_eqb r s
  | _, _ => false
  end.
(* every fact present now is pinned, and every pinned fact is still present (an import that disappeared is not a loss) *)
Definition is_import (f : string * string) : bool := String.eqb (fst f) "import".
Definition module_ok (m : string) : bool :=
  match assoc m structure, assoc m pinned with
  | Some a, Some b => forallb (fun x => existsb (fact_eqb x) b) a
                      && forallb (fun x => is_import x || existsb (fact_eqb x) a) b
  | _, _ => false
  end.
Definition structure_ok (mods : list string) : bool := forallb module_ok mods.

(* facts present now but not in the pinned table, and vice versa: what the replay file of a broken premise names *)
Definition facts_minus (a b : list (string * string)) : list (string * string) :=
  filter (fun x => negb (existsb (fact_eqb x) b)) a.
Definition structure_diff (m : string) : list (string * string) * list (string * string) :=
  match assoc m structure, assoc m pinned with
  | Some a, Some b => (facts_minus a b, facts_minus b a)
  | _, _ => ([], [])
  end.
