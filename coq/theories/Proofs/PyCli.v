(* Source semantics of the argument validators of __main__.py (regenerated terms) = Model/Cli.v, for every ASCII argument
   text (argv strings with non-ASCII characters: int(), str.strip() on them are outside the fragment). *)
From BHW Require Import Lib.Base Lib.ListAux Lib.PyInt Model.Helper Model.WalletUtils Model.Cli Py.Interp Py.Tactics.
From BHWGen Require Import Consts PyAst.
Open Scope string_scope.
Open Scope Z_scope.
Open Scope list_scope.

Lemma value_in_interval_sem ext fuel value lo hi name :
  ascii value = true ->
  sem___main____value_in_interval ext fuel [VStr value; VInt lo; VInt hi; VStr name]
  = match py_int value with
    | Err => Exc ValueError
    | Ok v => if (lo <=? v) && (v <? hi) then Val (VInt v) else Exc ArgumentError
    end.
Proof.
  intros Ha. unfold sem___main____value_in_interval, call, ast___main____value_in_interval. pystep.
  unfold int_of_str. rewrite Ha. destruct (py_int value) as [v|]; pystep; [|reflexivity].
  destruct (lo <=? v); pystep; [|reflexivity]. destruct (v <? hi); pystep; reflexivity.
Qed.
#[global] Arguments sem___main____value_in_interval : simpl never.

Definition vres_int (r : res Z) (value : list Z) : R val :=
  match r with
  | Ok v => Val (VInt v)
  | Err => match py_int value with Err => Exc ValueError | Ok _ => Exc ArgumentError end
  end.

Lemma address_index_sem ext fuel value :
  ascii value = true ->
  sem___main____address_index ext fuel [VStr value] = vres_int (address_index value) value.
Proof.
  intros Ha. unfold sem___main____address_index, call, ast___main____address_index. pystep.
  change (2 ^ 32 - 1) with 4294967295. rewrite value_in_interval_sem by exact Ha.
  unfold address_index, value_in_interval, vres_int. change (2 ^ 32 - 1) with 4294967295.
  destruct (py_int value) as [v|]; cbn [bind]; [|reflexivity].
  destruct ((0 <=? v) && (v <? 4294967295)); reflexivity.
Qed.

Lemma account_index_sem ext fuel value :
  ascii value = true ->
  sem___main____account_index ext fuel [VStr value] = vres_int (account_index value) value.
Proof.
  intros Ha. unfold sem___main____account_index, call, ast___main____account_index. pystep.
  change (2 ^ 31 - 1) with 2147483647. rewrite value_in_interval_sem by exact Ha.
  unfold account_index, value_in_interval, vres_int. change (2 ^ 31 - 1) with 2147483647.
  destruct (py_int value) as [v|]; cbn [bind]; [|reflexivity].
  destruct ((0 <=? v) && (v <? 2147483647)); reflexivity.
Qed.

Definition vres_str (r : res (list Z)) : R val := match r with Ok s => Val (VStr s) | Err => Exc ArgumentError end.

Lemma extended_key_sem ext fuel value :
  sem___main____extended_key ext fuel [VStr value] = vres_str (extended_key value).
Proof.
  unfold sem___main____extended_key, call, ast___main____extended_key, extended_key, len. pystep.
  destruct (Z.of_nat (List.length value) =? 111); reflexivity.
Qed.
Lemma bip39_seed_sem ext fuel value :
  sem___main____bip39_seed ext fuel [VStr value] = vres_str (bip39_seed value).
Proof.
  unfold sem___main____bip39_seed, call, ast___main____bip39_seed, bip39_seed, len. pystep.
  destruct (Z.of_nat (List.length value) =? 128); reflexivity.
Qed.

Lemma existsb_memb x l : existsb (val_eqb (VInt x)) (map VInt l) = memb x l.
Proof.
  unfold memb. induction l as [|y r IH]; [reflexivity|].
  change (existsb (val_eqb (VInt x)) (map VInt (y :: r))) with ((x =? y) || existsb (val_eqb (VInt x)) (map VInt r)).
  rewrite IH. reflexivity.
Qed.

Lemma entropy_hex_sem ext fuel value :
  sem___main____entropy_hex ext fuel [VStr value] = vres_str (entropy_hex value).
Proof.
  unfold sem___main____entropy_hex, call, ast___main____entropy_hex, entropy_hex, len. pystep.
  unfold memb. change CORRECT_ENTROPY_BITS with [128; 160; 192; 224; 256]. cbn [existsb].
  destruct (Z.of_nat (List.length value) * 4 =? 128); [reflexivity|].
  destruct (Z.of_nat (List.length value) * 4 =? 160); [reflexivity|].
  destruct (Z.of_nat (List.length value) * 4 =? 192); [reflexivity|].
  destruct (Z.of_nat (List.length value) * 4 =? 224); [reflexivity|].
  destruct (Z.of_nat (List.length value) * 4 =? 256); reflexivity.
Qed.

Lemma split_on_eq c s cur : Interp.split_on c s cur = WalletUtils.split_on c s cur.
Proof. revert cur; induction s as [|x r IH]; intros cur; cbn; [reflexivity|]. rewrite !IH. reflexivity. Qed.

Lemma mnemonic_sem ext fuel value :
  ascii value = true ->
  sem___main____mnemonic ext fuel [VStr value] = vres_str (mnemonic value).
Proof.
  intros Ha. unfold sem___main____mnemonic, call, ast___main____mnemonic, mnemonic. pystep.
  rewrite map_length, split_on_eq.
  unfold memb. change CORRECT_MNEMONIC_LENGTH with [12; 15; 18; 21; 24]. cbn [existsb].
  unfold Helper.str.
  repeat match goal with |- context [(?a =? ?b) || _] => destruct (a =? b); cbn [orb] end.
  all: pystep; rewrite ?Ha; reflexivity.
Qed.
