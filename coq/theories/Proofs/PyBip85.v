(* Source semantics of BIP85DeterministicEntropy.hex / bip39_mnemonic (regenerated terms of bip85.py) = Model/Bip85M.v, with
   the instance method entropy(path) as an external primitive: an arbitrary function from the path string to 64 bytes or a
   failure.  The object is a value; the two methods never read its fields. *)
From BHW Require Import Lib.Base Lib.Digits Lib.ListAux Lib.PyInt Model.Helper Model.WalletUtils Model.Bip39M Model.Bip85M
  Py.Interp Py.Tactics Proofs.PyPathObj Proofs.PyBip39.
From BHWGen Require Import Consts PyAst.
Open Scope string_scope.
Open Scope Z_scope.
Open Scope list_scope.

Lemma hex_is_hexstr b : wf_bytes b ->
  List.concat (map (fun c => [hexdigit (c / 16); hexdigit (c mod 16)]) b) = hexstr b.
Proof.
  unfold hexstr. induction 1 as [|x r Hx Hr IH]; [reflexivity|]. cbn [map List.concat flat_map]. rewrite IH.
  unfold hexdigit. cbn [app]. f_equal; [destruct (x / 16 <? 10); lia|]. f_equal. destruct (x mod 16 <? 10); lia.
Qed.

Section WithEntropy.
Variable ent : list Z -> res (list Z).
Hypothesis ent_wf : forall p e, ent p = Ok e -> wf_bytes e.
Variable ext : fenv_t.
Hypothesis ext_entropy :
  ext "bip85.BIP85DeterministicEntropy.entropy"
  = Some (fun args => match args with
                      | [_; VStr p] => match ent p with Ok e => Val (VBytes e) | Err => Exc ValueError end
                      | _ => Exc TypeError
                      end).

(* the model's hex85 / bip39_mnemonic over an abstract entropy function *)
Definition hex_path (n i : Z) : str :=
  s_prefix ++ [49;50;56;49;54;57] ++ q_slash ++ WalletUtils.str_of_int n ++ q_slash ++ WalletUtils.str_of_int i ++ q.
Definition hex_model (n i : Z) : res str :=
  if negb ((16 <=? n) && (n <=? 64)) then Err else
  do e <- ent (hex_path n i); Ok (hexstr (take (Z.to_nat n) e)).

Lemma hex_sem fuel self n i :
  agrees (sem_bip85__BIP85DeterministicEntropy__hex ext fuel [self; VInt n; VInt i]) (rmap VStr (hex_model n i)).
Proof.
  unfold hex_model. remember (hex_path n i) as P eqn:EP.
  unfold sem_bip85__BIP85DeterministicEntropy__hex, call, ast_bip85__BIP85DeterministicEntropy__hex. pystep.
  destruct (16 <=? n) eqn:E1; pystep.
  2:{ exists ValueError. split; [reflexivity|split; discriminate]. }
  destruct (n <=? 64) eqn:E2; pystep.
  2:{ exists ValueError. split; [reflexivity|split; discriminate]. }
  rewrite !str_of_int_eq. rewrite ext_entropy.
  match goal with |- context [match ent ?p with _ => _ end] => replace p with P by (rewrite EP; reflexivity) end.
  destruct (ent P) as [e|] eqn:Ee; pystep; cbn [bind rmap agrees].
  2:{ exists ValueError. split; [reflexivity|split; discriminate]. }
  rewrite slice_to by lia. pystep. unfold take.
  rewrite hex_is_hexstr by (apply Forall_firstn; exact (ent_wf _ _ Ee)). reflexivity.
Qed.

(* ---- pwd ---- *)
Definition pwd_path (n i : Z) : str :=
  s_prefix ++ [55;48;55;55;54;52] ++ q_slash ++ WalletUtils.str_of_int n ++ q_slash ++ WalletUtils.str_of_int i ++ q.
Definition pwd_model (n i : Z) : res str :=
  if negb ((20 <=? n) && (n <=? 86)) then Err else
  do e <- ent (pwd_path n i); Ok (take (Z.to_nat n) (b64encode e)).

(* base64 text: every character is one of the alphabet, '=' or (for out-of-range symbols, never produced from bytes) NUL:
   ASCII, and never white space -- so .decode() and .strip() leave it as it is *)
Lemma b64c_in v : In (b64c v) (0 :: b64_alphabet).
Proof. unfold b64c. destruct (nth_in_or_default (Z.to_nat v) b64_alphabet 0) as [H|H]; [right; exact H|left; symmetry; exact H]. Qed.
Lemma b64_chars : forall b, Forall (fun c => In c (61 :: 0 :: b64_alphabet)) (b64encode b).
Proof.
  fix IH 1. intros [|x [|y [|z r]]]; cbn [b64encode].
  - constructor.
  - repeat (constructor; [first [right; apply b64c_in | left; reflexivity]|]). constructor.
  - repeat (constructor; [first [right; apply b64c_in | left; reflexivity]|]). constructor.
  - repeat (constructor; [right; apply b64c_in|]). apply IH.
Qed.
Lemma b64_alpha_ok : forallb (fun c => (0 <=? c) && (c <? 128) && negb (is_ws c)) (61 :: 0 :: b64_alphabet) = true.
Proof. vm_compute. reflexivity. Qed.
Lemma b64_char_ok b : Forall (fun c => 0 <= c < 128 /\ is_ws c = false) (b64encode b).
Proof.
  eapply Forall_impl; [|apply b64_chars]. intros c Hc. cbv beta in Hc.
  pose proof (proj1 (forallb_forall _ _) b64_alpha_ok c Hc) as H. cbv beta in H.
  destruct (is_ws c); [rewrite andb_false_r in H; discriminate|]. split; [lia|reflexivity].
Qed.
Lemma b64_ascii b : ascii (b64encode b) = true.
Proof. apply ascii_Forall. eapply Forall_impl; [|apply (b64_char_ok b)]. intros c [H _]. exact H. Qed.
Lemma lstrip_nows s : match s with c :: _ => is_ws c = false | [] => True end -> lstrip s = s.
Proof. destruct s as [|c r]; [reflexivity|]. intros H. cbn [lstrip]. rewrite H. reflexivity. Qed.
Lemma strip_nows s : Forall (fun c => is_ws c = false) s -> strip s = s.
Proof.
  intros H. unfold strip. rewrite (lstrip_nows s) by (destruct H; [exact I|assumption]).
  rewrite lstrip_nows; [apply rev_involutive|].
  apply Forall_rev in H. destruct H; [exact I|assumption].
Qed.

Lemma pwd_sem fuel self n i :
  agrees (sem_bip85__BIP85DeterministicEntropy__pwd ext fuel [self; VInt n; VInt i]) (rmap VStr (pwd_model n i)).
Proof.
  unfold pwd_model. remember (pwd_path n i) as P eqn:EP.
  unfold sem_bip85__BIP85DeterministicEntropy__pwd, call, ast_bip85__BIP85DeterministicEntropy__pwd. pystep.
  destruct (20 <=? n) eqn:E1; pystep.
  2:{ exists ValueError. split; [reflexivity|split; discriminate]. }
  destruct (n <=? 86) eqn:E2; pystep.
  2:{ exists ValueError. split; [reflexivity|split; discriminate]. }
  rewrite !str_of_int_eq. rewrite ext_entropy.
  match goal with |- context [match ent ?p with _ => _ end] => replace p with P by (rewrite EP; reflexivity) end.
  destruct (ent P) as [e|] eqn:Ee; pystep; cbn [bind rmap agrees].
  2:{ exists ValueError. split; [reflexivity|split; discriminate]. }
  assert (Hw : forallb (fun c => (0 <=? c) && (c <? 256)) e = true).
  { apply forallb_forall. intros c Hc. pose proof (ent_wf _ _ Ee) as W. unfold wf_bytes in W. rewrite Forall_forall in W.
    specialize (W c Hc). unfold byte_ok in W. lia. }
  rewrite Hw. pystep. rewrite b64_ascii. pystep. rewrite b64_ascii. pystep.
  unfold strip_ws. rewrite strip_nows by (eapply Forall_impl; [|apply (b64_char_ok e)]; intros c [_ H]; exact H).
  rewrite slice_to by lia. reflexivity.
Qed.

(* ---- bip39_mnemonic ---- *)
Lemma byte_count_sem fuel wc :
  sem_bip85__BIP85DeterministicEntropy__byte_count_from_word_count ext fuel [VInt wc]
  = match byte_count_from_word_count wc with Ok w => Val (VInt w) | Err => Exc ValueError end.
Proof.
  unfold sem_bip85__BIP85DeterministicEntropy__byte_count_from_word_count, call,
    ast_bip85__BIP85DeterministicEntropy__byte_count_from_word_count, byte_count_from_word_count. pystep.
  unfold memb. change CORRECT_MNEMONIC_LENGTH with [12; 15; 18; 21; 24]. cbn [existsb].
  repeat match goal with |- context [(?a =? ?c) || _] => destruct (a =? c); cbn [orb] end; pystep; reflexivity.
Qed.

Variable sha256 : bytes -> bytes.
Hypothesis sha256_wf : forall x, wf_bytes (sha256 x).
Hypothesis sha256_len : forall x, List.length (sha256 x) = 32%nat.
Hypothesis ext_sha256 :
  ext "helper.sha256" = Some (fun args => match args with [VBytes b] => Val (VBytes (sha256 b)) | _ => Exc TypeError end).

Definition mnemonic_path (wc i : Z) : str :=
  s_prefix ++ [51;57] ++ q_slash ++ [48] ++ q_slash ++ WalletUtils.str_of_int wc ++ q_slash ++ WalletUtils.str_of_int i ++ q.
Definition mnemonic_model (wc i : Z) : res str :=
  do e <- ent (mnemonic_path wc i);
  do width <- byte_count_from_word_count wc;
  Bip39M.mnemonic_from_entropy sha256 (hexstr (take (Z.to_nat width) e)).

#[local] Arguments sem_bip85__BIP85DeterministicEntropy__byte_count_from_word_count : simpl never.
#[local] Arguments sem_bip39__mnemonic_from_entropy : simpl never.

Lemma bip39_mnemonic_sem fuel self wc i :
  agrees (sem_bip85__BIP85DeterministicEntropy__bip39_mnemonic ext fuel [self; VInt wc; VInt i]) (rmap VStr (mnemonic_model wc i)).
Proof.
  unfold mnemonic_model. remember (mnemonic_path wc i) as P eqn:EP.
  unfold sem_bip85__BIP85DeterministicEntropy__bip39_mnemonic, call, ast_bip85__BIP85DeterministicEntropy__bip39_mnemonic. pystep.
  rewrite !str_of_int_eq. rewrite ext_entropy.
  match goal with |- context [match ent ?p with _ => _ end] => replace p with P by (rewrite EP; reflexivity) end.
  destruct (ent P) as [e|] eqn:Ee; pystep; cbn [bind rmap agrees].
  2:{ exists ValueError. split; [reflexivity|split; discriminate]. }
  rewrite byte_count_sem.
  destruct (byte_count_from_word_count wc) as [w|] eqn:Ew; pystep; cbn [bind rmap agrees].
  2:{ exists ValueError. split; [reflexivity|split; discriminate]. }
  assert (Hw : 0 <= w).
  { unfold byte_count_from_word_count in Ew. destruct (memb wc CORRECT_MNEMONIC_LENGTH) eqn:M; [|discriminate]. inversion Ew; subst.
    apply memb_spec in M. unfold CORRECT_MNEMONIC_LENGTH in M. cbn [In] in M. destruct M as [<-|[<-|[<-|[<-|[<-|[]]]]]]; cbn; lia. }
  rewrite slice_to by exact Hw. pystep.
  rewrite hex_is_hexstr by (apply Forall_firstn; exact (ent_wf _ _ Ee)).
  assert (M := mnemonic_from_entropy_sem sha256 sha256_wf sha256_len ext ext_sha256 fuel (hexstr (firstn (Z.to_nat w) e))).
  unfold take.
  destruct (Bip39M.mnemonic_from_entropy sha256 (hexstr (firstn (Z.to_nat w) e))) as [m|]; cbn [rmap agrees] in *.
  - rewrite M. reflexivity.
  - destruct M as (z & Mz & Gz). rewrite Mz. exists z. split; [reflexivity|exact Gz].
Qed.
End WithEntropy.
