(* Source semantics of BIP85DeterministicEntropy.hex / bip39_mnemonic (regenerated terms of bip85.py) = Model/Bip85M.v, with
   the instance method entropy(path) as an external primitive: an arbitrary function from the path string to 64 bytes or a
   failure.  The object is a value; the two methods never read its fields. *)
From BHW Require Import Lib.Base Lib.Digits Lib.ListAux Lib.PyInt Model.Helper Model.WalletUtils Model.Bip39M Model.Bip85M
  Py.Interp Py.Tactics Proofs.PyPathObj Proofs.PyBip39.
From BHWGen Require Import Consts PyAst.
Open Scope string_scope.
Open Scope Z_scope.
Open Scope list_scope.

Lemma hex_is_hexstr b : wf_bytes b ->
  List.concat (map (fun c => [hexdigit (c / 16); hexdigit (c mod 16)]) b) = hexstr b.
Proof.
  unfold hexstr. induction 1 as [|x r Hx Hr IH]; [reflexivity|]. cbn [map List.concat flat_map]. rewrite IH.
  unfold hexdigit. cbn [app]. f_equal; [destruct (x / 16 <? 10); lia|]. f_equal. destruct (x mod 16 <? 10); lia.
Qed.

Section WithEntropy.
Variable ent : list Z -> res (list Z).
Hypothesis ent_wf : forall p e, ent p = Ok e -> wf_bytes e.
Variable ext : fenv_t.
Hypothesis ext_entropy :
  ext "bip85.BIP85DeterministicEntropy.entropy"
  = Some (fun args => match args with
                      | [_; VStr p] => match ent p with Ok e => Val (VBytes e) | Err => Exc ValueError end
                      | _ => Exc TypeError
                      end).

(* the model's hex85 / bip39_mnemonic over an abstract entropy function *)
Definition hex_path (n i : Z) : str :=
  s_prefix ++ [49;50;56;49;54;57] ++ q_slash ++ WalletUtils.str_of_int n ++ q_slash ++ WalletUtils.str_of_int i ++ q.
Definition hex_model (n i : Z) : res str :=
  if negb ((16 <=? n) && (n <=? 64)) then Err else
  do e <- ent (hex_path n i); Ok (hexstr (take (Z.to_nat n) e)).

Lemma hex_sem fuel self n i :
  agrees (sem_bip85__BIP85DeterministicEntropy__hex ext fuel [self; VInt n; VInt i]) (rmap VStr (hex_model n i)).
Proof.
  unfold hex_model. remember (hex_path n i) as P eqn:EP.
  unfold sem_bip85__BIP85DeterministicEntropy__hex, call, ast_bip85__BIP85DeterministicEntropy__hex. pystep.
  destruct (16 <=? n) eqn:E1; pystep.
  2:{ exists ValueError. split; [reflexivity|split; discriminate]. }
  destruct (n <=? 64) eqn:E2; pystep.
  2:{ exists ValueError. split; [reflexivity|split; discriminate]. }
  rewrite !str_of_int_eq. rewrite ext_entropy.
  match goal with |- context [match ent ?p with _ => _ end] => replace p with P by (rewrite EP; reflexivity) end.
  destruct (ent P) as [e|] eqn:Ee; pystep; cbn [bind rmap agrees].
  2:{ exists ValueError. split; [reflexivity|split; discriminate]. }
  rewrite slice_to by lia. pystep. unfold take.
  rewrite hex_is_hexstr by (apply Forall_firstn; exact (ent_wf _ _ Ee)). reflexivity.
Qed.

(* ---- bip39_mnemonic ---- *)
Lemma byte_count_sem fuel wc :
  sem_bip85__BIP85DeterministicEntropy__byte_count_from_word_count ext fuel [VInt wc]
  = match byte_count_from_word_count wc with Ok w => Val (VInt w) | Err => Exc ValueError end.
Proof.
  unfold sem_bip85__BIP85DeterministicEntropy__byte_count_from_word_count, call,
    ast_bip85__BIP85DeterministicEntropy__byte_count_from_word_count, byte_count_from_word_count. pystep.
  unfold memb. change CORRECT_MNEMONIC_LENGTH with [12; 15; 18; 21; 24]. cbn [existsb].
  repeat match goal with |- context [(?a =? ?c) || _] => destruct (a =? c); cbn [orb] end; pystep; reflexivity.
Qed.

Variable sha256 : bytes -> bytes.
Hypothesis sha256_wf : forall x, wf_bytes (sha256 x).
Hypothesis sha256_len : forall x, List.length (sha256 x) = 32%nat.
Hypothesis ext_sha256 :
  ext "helper.sha256" = Some (fun args => match args with [VBytes b] => Val (VBytes (sha256 b)) | _ => Exc TypeError end).

Definition mnemonic_path (wc i : Z) : str :=
  s_prefix ++ [51;57] ++ q_slash ++ [48] ++ q_slash ++ WalletUtils.str_of_int wc ++ q_slash ++ WalletUtils.str_of_int i ++ q.
Definition mnemonic_model (wc i : Z) : res str :=
  do e <- ent (mnemonic_path wc i);
  do width <- byte_count_from_word_count wc;
  Bip39M.mnemonic_from_entropy sha256 (hexstr (take (Z.to_nat width) e)).

#[local] Arguments sem_bip85__BIP85DeterministicEntropy__byte_count_from_word_count : simpl never.
#[local] Arguments sem_bip39__mnemonic_from_entropy : simpl never.

Lemma bip39_mnemonic_sem fuel self wc i :
  agrees (sem_bip85__BIP85DeterministicEntropy__bip39_mnemonic ext fuel [self; VInt wc; VInt i]) (rmap VStr (mnemonic_model wc i)).
Proof.
  unfold mnemonic_model. remember (mnemonic_path wc i) as P eqn:EP.
  unfold sem_bip85__BIP85DeterministicEntropy__bip39_mnemonic, call, ast_bip85__BIP85DeterministicEntropy__bip39_mnemonic. pystep.
  rewrite !str_of_int_eq. rewrite ext_entropy.
  match goal with |- context [match ent ?p with _ => _ end] => replace p with P by (rewrite EP; reflexivity) end.
  destruct (ent P) as [e|] eqn:Ee; pystep; cbn [bind rmap agrees].
  2:{ exists ValueError. split; [reflexivity|split; discriminate]. }
  rewrite byte_count_sem.
  destruct (byte_count_from_word_count wc) as [w|] eqn:Ew; pystep; cbn [bind rmap agrees].
  2:{ exists ValueError. split; [reflexivity|split; discriminate]. }
  assert (Hw : 0 <= w).
  { unfold byte_count_from_word_count in Ew. destruct (memb wc CORRECT_MNEMONIC_LENGTH) eqn:M; [|discriminate]. inversion Ew; subst.
    apply memb_spec in M. unfold CORRECT_MNEMONIC_LENGTH in M. cbn [In] in M. destruct M as [<-|[<-|[<-|[<-|[<-|[]]]]]]; cbn; lia. }
  rewrite slice_to by exact Hw. pystep.
  rewrite hex_is_hexstr by (apply Forall_firstn; exact (ent_wf _ _ Ee)).
  assert (M := mnemonic_from_entropy_sem sha256 sha256_wf sha256_len ext ext_sha256 fuel (hexstr (firstn (Z.to_nat w) e))).
  unfold take.
  destruct (Bip39M.mnemonic_from_entropy sha256 (hexstr (firstn (Z.to_nat w) e))) as [m|]; cbn [rmap agrees] in *.
  - rewrite M. reflexivity.
  - destruct M as (z & Mz & Gz). rewrite Mz. exists z. split; [reflexivity|exact Gz].
Qed.
End WithEntropy.
