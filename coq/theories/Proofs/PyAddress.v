(* Source semantics of the segwit address helpers of helper.py (regenerated terms) = the model's bech32 encode. *)
From BHW Require Import Lib.Base Lib.ListAux Model.Helper Model.Bech32M Py.Interp Py.Tactics Proofs.PyBech32 Proofs.PyConvertbits.
From BHWGen Require Import Consts PyAst.
Open Scope string_scope.
Open Scope Z_scope.
Open Scope list_scope.

Definition hrp_of (testnet : bool) : list Z := if testnet then [116; 98] else [98; 99].   (* "tb" / "bc" *)

Lemma h160_to_p2wpkh_sem ext f h160 (testnet : bool) witver :
  agrees (sem_helper__h160_to_p2wpkh_address ext (S (S (S f))) [VBytes h160; VBool testnet; VInt witver])
         (rmap (vopt vstr) (encode (hrp_of testnet) witver h160)).
Proof.
  unfold sem_helper__h160_to_p2wpkh_address, call, ast_helper__h160_to_p2wpkh_address. pystep.
  assert (A := encode_sem_gen ext f (hrp_of testnet) witver (VBytes h160) h160 eq_refl).
  destruct testnet; pystep; unfold hrp_of, vstr in *;
    destruct (encode _ witver h160) as [[s|]|]; cbn [rmap vopt agrees] in *.
  all: try (rewrite A; reflexivity).
  all: destruct A as (e & A & G); rewrite A; exists e; split; [reflexivity|exact G].
Qed.

Lemma h256_to_p2wsh_sem ext f h256 (testnet : bool) witver :
  agrees (sem_helper__h256_to_p2wsh_address ext (S (S (S f))) [VBytes h256; VBool testnet; VInt witver])
         (rmap (vopt vstr) (encode (hrp_of testnet) witver h256)).
Proof.
  unfold sem_helper__h256_to_p2wsh_address, call, ast_helper__h256_to_p2wsh_address. pystep.
  assert (A := encode_sem_gen ext f (hrp_of testnet) witver (VBytes h256) h256 eq_refl).
  destruct testnet; pystep; unfold hrp_of, vstr in *;
    destruct (encode _ witver h256) as [[s|]|]; cbn [rmap vopt agrees] in *.
  all: try (rewrite A; reflexivity).
  all: destruct A as (e & A & G); rewrite A; exists e; split; [reflexivity|exact G].
Qed.
