(* Extended keys: parse o serialize round trip for all fields, 111-character strings. *)
From BHW Require Import Lib.Base Lib.Digits Lib.ListAux Model.Helper Model.Keys Model.Bip32M
  Spec.Curve Spec.Bip32 Proofs.Endian Proofs.Base58 Proofs.Bip32.
From BHWGen Require Import Consts.

(* ---- BytesIO reads on a buffer of known layout ---- *)
Lemma sread_rem s x rest :
  skipn (spos s) (sdata s) = x ++ rest ->
  sread (length x) s = (x, {| sdata := sdata s; spos := spos s + length x |}) /\
  skipn (spos s + length x) (sdata s) = rest.
Proof.
  intros H. unfold sread. rewrite H, firstn_app, Nat.sub_diag, firstn_all. cbn [firstn]. rewrite app_nil_r.
  split; [reflexivity|]. rewrite (Nat.add_comm (spos s)), <- skipn_skipn, H.
  rewrite skipn_app, Nat.sub_diag, skipn_all. reflexivity.
Qed.

Lemma parse_fields prv v4 d1 f4 i4 c32 k33 t :
  length v4 = 4%nat -> length d1 = 1%nat -> length f4 = 4%nat -> length i4 = 4%nat ->
  length c32 = 32%nat -> length k33 = 33%nat ->
  parse_bytes prv (v4 ++ d1 ++ f4 ++ i4 ++ c32 ++ k33) t =
  {| is_prv := prv; nkey := k33; nchain := c32; ndepth := be2z d1; nindex := be2z i4; ntestnet := t;
     nparent := None; nparsed_fpr := Some f4; nparsed_version := Some (be2z v4) |}.
Proof.
  intros Hv Hd Hf Hi Hc Hk. unfold parse_bytes, parse_stream, mkstream.
  set (D := v4 ++ d1 ++ f4 ++ i4 ++ c32 ++ k33).
  destruct (sread_rem {| sdata := D; spos := 0 |} v4 (d1 ++ f4 ++ i4 ++ c32 ++ k33) eq_refl) as [R1 S1].
  rewrite Hv in R1, S1. rewrite R1. cbn [sdata spos] in *.
  destruct (sread_rem {| sdata := D; spos := 0 + 4 |} d1 _ S1) as [R2 S2].
  rewrite Hd in R2, S2. rewrite R2. cbn [sdata spos] in *.
  destruct (sread_rem {| sdata := D; spos := 0 + 4 + 1 |} f4 _ S2) as [R3 S3].
  rewrite Hf in R3, S3. rewrite R3. cbn [sdata spos] in *.
  destruct (sread_rem {| sdata := D; spos := 0 + 4 + 1 + 4 |} i4 _ S3) as [R4 S4].
  rewrite Hi in R4, S4. rewrite R4. cbn [sdata spos] in *.
  destruct (sread_rem {| sdata := D; spos := 0 + 4 + 1 + 4 + 4 |} c32 _ S4) as [R5 S5].
  rewrite Hc in R5, S5. rewrite R5. cbn [sdata spos] in *.
  rewrite <- (app_nil_r k33) in S5.
  destruct (sread_rem {| sdata := D; spos := 0 + 4 + 1 + 4 + 4 + 32 |} k33 _ S5) as [R6 _].
  rewrite Hk in R6. rewrite R6. reflexivity.
Qed.

Lemma be_props len v : 0 <= v < 256 ^ Z.of_nat len ->
  length (be len v) = len /\ wf_bytes (be len v) /\ be2z (be len v) = v.
Proof.
  intros H. destruct (z2be_ok len v H) as [bs [H1 [H2 [H3 H4]]]].
  unfold z2be, z2le in H1. destruct ((v <? 0) || (256 ^ Z.of_nat len <=? v)); [discriminate|].
  cbn [rmap] in H1. inversion H1; subst bs. unfold be. auto.
Qed.

(* number of base-b digits *)
Lemma to_le_length b fuel : forall k n, 2 <= b ->
  b ^ Z.of_nat k <= n < b ^ Z.of_nat (S k) -> n < 2 ^ Z.of_nat fuel ->
  length (to_le b fuel n) = S k.
Proof.
  induction fuel as [|f IH]; intros k n Hb Hn Hf.
  - change (2 ^ Z.of_nat 0) with 1 in Hf. assert (0 < b ^ Z.of_nat k) by (apply Z.pow_pos_nonneg; lia). lia.
  - assert (Hpos : 0 < b ^ Z.of_nat k) by (apply Z.pow_pos_nonneg; lia).
    cbn [to_le]. destruct (n <=? 0) eqn:E; [lia|]. cbn [length]. f_equal.
    rewrite Nat2Z.inj_succ, Z.pow_succ_r in Hn by lia.
    assert (Hq : n / b < 2 ^ Z.of_nat f).
    { rewrite Nat2Z.inj_succ, Z.pow_succ_r in Hf by lia.
      assert (n / b <= n / 2) by (apply Z.div_le_compat_l; lia).
      assert (n / 2 < 2 ^ Z.of_nat f) by (apply Z.div_lt_upper_bound; lia). lia. }
    destruct k as [|k'].
    + change (b ^ Z.of_nat 0) with 1 in *. rewrite Z.div_small by lia. rewrite to_le_zero by lia. reflexivity.
    + apply IH; auto. rewrite Nat2Z.inj_succ, Z.pow_succ_r in * by lia. split.
      * apply Z.div_le_lower_bound; lia.
      * apply Z.div_lt_upper_bound; lia.
Qed.

Section ExtKey.
Variable C : curve.
Hypothesis laws : curve_laws C.
Hypothesis order_eq : order C = CURVE_ORDER.
Variable hmac512 : bytes -> bytes -> bytes.
Variable hash160 : bytes -> bytes.
Hypothesis hmac_len : forall k d, length (hmac512 k d) = 64%nat.
Hypothesis hmac_wf : forall k d, wf_bytes (hmac512 k d).
Hypothesis hash160_len : forall x, length (hash160 x) = 20%nat.
Set Default Proof Using "All".
Notation "'SV' f" := (f C laws order_eq hmac512 hash160 hmac_len hmac_wf hash160_len) (at level 10, f at level 9, only parsing).

Notation parent_fingerprint := (parent_fingerprint C hash160).

Definition fields_ok (nd : node) (v : Z) (fpr : bytes) : Prop :=
  length (nchain nd) = 32%nat /\ 0 <= v < 4294967296 /\ 0 <= ndepth nd < 256 /\ 0 <= nindex nd < 4294967296 /\
  parent_fingerprint nd = Ok fpr /\ length fpr = 4%nat /\
  (ndepth nd = 0 -> nindex nd = 0 -> fpr = [0;0;0;0]).

Lemma parsed_fingerprint prv k c d i t f v :
  length f = 4%nat ->
  parent_fingerprint {| is_prv := prv; nkey := k; nchain := c; ndepth := d; nindex := i; ntestnet := t;
                        nparent := None; nparsed_fpr := Some f; nparsed_version := v |} = Ok f.
Proof.
  intros Hl. unfold Bip32M.parent_fingerprint. cbn [nparent nparsed_fpr bind].
  destruct f; [discriminate|reflexivity].
Qed.

Lemma is_master_fpr nd v fpr : fields_ok nd v fpr -> is_master nd = true -> fpr = [0;0;0;0].
Proof.
  intros [_ [_ [_ [_ [_ [_ H0]]]]]] Hm. unfold is_master in Hm.
  apply andb_true_iff in Hm as [Hm _]. apply andb_true_iff in Hm as [H1 H2]. apply H0; lia.
Qed.

Theorem prv_roundtrip nd v fpr t :
  valid_prv nd -> fields_ok nd v fpr ->
  exists b nd', serialize_private C hash160 nd (Some v) = Ok b /\ length b = 78%nat /\
    parse_bytes true b t = nd' /\
    nkey nd' = 0 :: key32 nd /\ nchain nd' = nchain nd /\ ndepth nd' = ndepth nd /\ nindex nd' = nindex nd /\
    ntestnet nd' = t /\ nparsed_version nd' = Some v /\ parent_fingerprint nd' = Ok fpr /\
    valid_prv nd' /\ scalar nd' = scalar nd /\
    serialize_private C hash160 nd' (Some v) = Ok b.
Proof.
  intros Hv Hf. pose proof Hf as [Hc [Hver [Hd [Hi [Hp [Hfl H0]]]]]].
  pose proof (is_master_fpr nd v fpr Hf) as Hm.
  pose proof (SV serialize_private_spec nd v fpr Hv Hver Hd Hi Hp Hm) as Hs.
  destruct (SV key32_props nd Hv) as [Hkw [Hkl Hks]].
  assert (Hsr : 0 <= scalar nd < 256 ^ Z.of_nat 32).
  { destruct Hv as [_ [_ [_ Hr]]]. pose proof curve_order_lt. unfold scalar. lia. }
  destruct (SV ser256_props (scalar nd) Hsr) as [A [B D]].
  assert (Hk32 : key32 nd = ser256 (scalar nd)) by (apply be2z_inj; auto; congruence).
  destruct (be_props 4 v ltac:(rewrite pow32; lia)) as [V1 [V2 V3]].
  destruct (be_props 1 (ndepth nd) ltac:(change (256 ^ Z.of_nat 1) with 256; lia)) as [D1 [D2 D3]].
  destruct (be_props 4 (nindex nd) ltac:(rewrite pow32; lia)) as [I1 [I2 I3]].
  eexists. eexists. split; [exact Hs|].
  unfold ser_prv. cbn [abs_prv x_depth x_fpr x_idx x_c x_k]. unfold ser32.
  split.
  { rewrite !app_length. cbn [length]. rewrite V1, D1, I1, Hfl, Hc, A. reflexivity. }
  rewrite parse_fields; auto; try (cbn [length]; rewrite A; reflexivity).
  split; [reflexivity|]. cbn [nkey nchain ndepth nindex ntestnet nparsed_version].
  rewrite <- Hk32. rewrite V3, D3, I3.
  split; [reflexivity|]. split; [reflexivity|]. split; [reflexivity|]. split; [reflexivity|].
  split; [reflexivity|]. split; [reflexivity|].
  split; [apply parsed_fingerprint; exact Hfl|].
  set (nd' := {| is_prv := true; nkey := 0 :: key32 nd; nchain := nchain nd; ndepth := ndepth nd; nindex := nindex nd;
                 ntestnet := t; nparent := None; nparsed_fpr := Some fpr; nparsed_version := Some v |}).
  assert (Hv' : valid_prv nd').
  { unfold valid_prv, nd'. cbn [is_prv nkey]. split; [reflexivity|].
    split; [constructor; [unfold byte_ok; lia|exact Hkw]|].
    split; [right; split; [cbn [length]; rewrite Hkl; reflexivity|reflexivity]|].
    rewrite be2z_cons0, Hks. destruct Hv as [_ [_ [_ Hr]]]. exact Hr. }
  assert (Hsc : scalar nd' = scalar nd) by (unfold scalar, nd'; cbn [nkey]; rewrite be2z_cons0; exact Hks).
  split; [exact Hv'|]. split; [exact Hsc|].
  assert (Hp' : parent_fingerprint nd' = Ok fpr) by (apply parsed_fingerprint; exact Hfl).
  assert (Hm' : is_master nd' = true -> fpr = [0;0;0;0]).
  { unfold is_master, nd'. cbn [ndepth nindex nparent]. intros Hx.
    apply andb_true_iff in Hx as [Hx _]. apply andb_true_iff in Hx as [H1 H2]. apply H0; lia. }
  etransitivity; [exact (SV serialize_private_spec nd' v fpr Hv' Hver Hd Hi Hp' Hm')|].
  unfold ser_prv, abs_prv, ser32. cbn [x_depth x_fpr x_idx x_c x_k]. rewrite Hsc, Hk32. reflexivity.
Qed.

(* ---- public nodes ---- *)
Definition valid_pub (pn : node) (K : pt C) : Prop := is_prv pn = false /\ nkey pn = ser_c C K.

Lemma serialize_public_bytes pn K v fpr :
  public_key C pn = Ok K -> fields_ok pn v fpr ->
  serialize_public C hash160 pn (Some v) =
  Ok (ser32 v ++ be 1 (ndepth pn) ++ fpr ++ ser32 (nindex pn) ++ nchain pn ++ ser_c C K).
Proof.
  intros HK Hf. pose proof Hf as [Hc [Hver [Hd [Hi [Hp [Hfl H0]]]]]].
  unfold serialize_public, serialize_node. rewrite HK. cbn [bind]. unfold int_to_big_endian.
  rewrite !(SV ser32_z2be) by lia. cbn [bind].
  assert (Hd1 : z2be 1 (ndepth pn) = Ok (be 1 (ndepth pn))).
  { unfold z2be, z2le, be. change (256 ^ Z.of_nat 1) with 256.
    destruct ((ndepth pn <? 0) || (256 <=? ndepth pn)) eqn:E; [lia|reflexivity]. }
  rewrite Hd1. cbn [bind].
  assert (Hfp : (if is_master pn then Ok (ser32 0) else parent_fingerprint pn) = Ok fpr).
  { destruct (is_master pn) eqn:Em; [|exact Hp]. rewrite (is_master_fpr pn v fpr Hf Em). reflexivity. }
  rewrite Hfp. reflexivity.
Qed.

Theorem pub_roundtrip pn K v fpr t :
  valid_pub pn K -> fields_ok pn v fpr ->
  exists b nd', serialize_public C hash160 pn (Some v) = Ok b /\ length b = 78%nat /\
    parse_bytes false b t = nd' /\
    nkey nd' = ser_c C K /\ nchain nd' = nchain pn /\ ndepth nd' = ndepth pn /\ nindex nd' = nindex pn /\
    ntestnet nd' = t /\ nparsed_version nd' = Some v /\ parent_fingerprint nd' = Ok fpr /\
    serialize_public C hash160 nd' (Some v) = Ok b.
Proof.
  intros [Hpp Hk] Hf. pose proof Hf as [Hc [Hver [Hd [Hi [Hp [Hfl H0]]]]]].
  assert (HK : public_key C pn = Ok K) by (apply (SV public_key_pub); assumption).
  destruct (be_props 4 v ltac:(rewrite pow32; lia)) as [V1 [V2 V3]].
  destruct (be_props 1 (ndepth pn) ltac:(change (256 ^ Z.of_nat 1) with 256; lia)) as [D1 [D2 D3]].
  destruct (be_props 4 (nindex pn) ltac:(rewrite pow32; lia)) as [I1 [I2 I3]].
  eexists. eexists. split; [apply serialize_public_bytes; eassumption|].
  split.
  { rewrite !app_length. unfold ser32. rewrite V1, D1, I1, Hfl, Hc, (ser_c_len C laws). reflexivity. }
  rewrite parse_fields; auto; try apply (ser_c_len C laws).
  split; [reflexivity|]. cbn [nkey nchain ndepth nindex ntestnet nparsed_version]. unfold ser32. rewrite V3, D3, I3.
  split; [reflexivity|]. split; [reflexivity|]. split; [reflexivity|]. split; [reflexivity|].
  split; [reflexivity|]. split; [reflexivity|].
  split; [apply parsed_fingerprint; exact Hfl|].
  set (nd' := {| is_prv := false; nkey := ser_c C K; nchain := nchain pn; ndepth := ndepth pn; nindex := nindex pn;
                 ntestnet := t; nparent := None; nparsed_fpr := Some fpr; nparsed_version := Some v |}).
  assert (HK' : public_key C nd' = Ok K) by (apply (SV public_key_pub); reflexivity).
  assert (Hf' : fields_ok nd' v fpr).
  { unfold fields_ok, nd'. cbn [nchain ndepth nindex]. repeat split; auto; try lia. apply parsed_fingerprint; exact Hfl. }
  etransitivity; [exact (serialize_public_bytes nd' K v fpr HK' Hf')|]. reflexivity.
Qed.

(* a serialised extended public key is a function of the public view only, and its key bytes are
   a compressed point (02/03 prefix): no byte of the private scalar is ever present *)
Theorem xpub_public_only nd pn K v fpr :
  valid_prv nd -> G_mul C (scalar nd) = Some K -> fields_ok nd v fpr ->
  valid_pub pn K -> fields_ok pn v fpr ->
  nchain pn = nchain nd -> ndepth pn = ndepth nd -> nindex pn = nindex nd ->
  serialize_public C hash160 nd (Some v) = serialize_public C hash160 pn (Some v) /\
  exists b tag r, serialize_public C hash160 nd (Some v) = Ok b /\ skipn 45 b = tag :: r /\ (tag = 2 \/ tag = 3).
Proof.
  intros Hv HG Hf [Hpp Hk] Hfp Hc Hd Hi.
  assert (HK : public_key C nd = Ok K) by (apply (SV public_key_of_valid); assumption).
  assert (HKp : public_key C pn = Ok K) by (apply (SV public_key_pub); assumption).
  rewrite (serialize_public_bytes nd K v fpr HK Hf), (serialize_public_bytes pn K v fpr HKp Hfp), Hc, Hd, Hi.
  split; [reflexivity|].
  destruct (ser_c_prefix C laws K) as [tag [r [Hs Ht]]].
  eexists. exists tag, r. split; [reflexivity|]. split; [|exact Ht].
  pose proof Hfp as [Hcl [Hver [Hdd [Hii [_ [Hfl _]]]]]].
  destruct (be_props 4 v ltac:(rewrite pow32; lia)) as [V1 _].
  destruct (be_props 1 (ndepth pn) ltac:(change (256 ^ Z.of_nat 1) with 256; lia)) as [D1 _].
  destruct (be_props 4 (nindex pn) ltac:(rewrite pow32; lia)) as [I1 _].
  rewrite <- Hc, <- Hd, <- Hi.
  set (pre := ser32 v ++ be 1 (ndepth pn) ++ fpr ++ ser32 (nindex pn) ++ nchain pn).
  assert (Hl : length pre = 45%nat).
  { unfold pre. rewrite !app_length. unfold ser32. rewrite V1, D1, I1, Hfl, Hcl. reflexivity. }
  replace (ser32 v ++ be 1 (ndepth pn) ++ fpr ++ ser32 (nindex pn) ++ nchain pn ++ ser_c C K)
    with (pre ++ ser_c C K) by (unfold pre; rewrite <- !app_assoc; reflexivity).
  rewrite skipn_app, Hl, Nat.sub_diag. rewrite skipn_all2 by lia. cbn [app skipn]. exact Hs.
Qed.

(* a master key is serialised with zero depth, fingerprint and child number *)
Theorem master_serialization nd v b :
  is_master nd = true -> valid_prv nd -> 0 <= v < 4294967296 ->
  serialize_private C hash160 nd (Some v) = Ok b ->
  firstn 9 (skipn 4 b) = [0; 0;0;0;0; 0;0;0;0].
Proof.
  intros Hm Hv Hver Hs. destruct (SV private_key_valid nd Hv) as [K [Hpk _]].
  unfold serialize_private, serialize_node in Hs. rewrite Hpk, Hm in Hs. cbn [bind fst] in Hs.
  unfold is_master in Hm. apply andb_true_iff in Hm as [Hm _]. apply andb_true_iff in Hm as [H1 H2].
  assert (Hd : ndepth nd = 0) by lia. assert (Hi : nindex nd = 0) by lia. rewrite Hd, Hi in Hs.
  unfold int_to_big_endian in Hs. rewrite (SV ser32_z2be v Hver) in Hs.
  destruct (be_props 4 v ltac:(rewrite pow32; lia)) as [V1 _].
  change (z2be 1 0) with (Ok [0]) in Hs. change (z2be 4 0) with (Ok [0;0;0;0]) in Hs.
  cbn [bind] in Hs. inversion Hs; subst b. reflexivity.
Qed.

End ExtKey.

(* ---- the printed string has exactly 111 characters, for each of the twelve version constants ---- *)
Definition version_bounds_ok (v : Z) : bool :=
  (16777216 <=? v) && (58 ^ 110 <=? v * 256 ^ 78) && ((v + 1) * 256 ^ 78 <=? 58 ^ 111).

Lemma b58_length_111 alph b :
  length alph = 58%nat -> wf_bytes b -> length b = 82%nat ->
  version_bounds_ok (be2z (firstn 4 b)) = true ->
  exists s, encode_base58 alph b = Ok s /\ length s = 111%nat.
Proof.
  intros Ha Hw Hl Hv.
  rewrite (encode_eq alph (fun x => x) Ha). eexists. split; [reflexivity|].
  set (v := be2z (firstn 4 b)) in *.
  assert (Hsplit : be2z b = v * 256 ^ 78 + be2z (skipn 4 b)).
  { rewrite <- (firstn_skipn 4 b) at 1. rewrite !be2z_rev', rev_app_distr, of_le_app, rev_length.
    rewrite skipn_length, Hl. fold v. change (Z.of_nat (82 - 4)) with 78. unfold v. rewrite be2z_rev'. lia. }
  assert (Hr : 0 <= be2z (skipn 4 b) < 256 ^ 78).
  { pose proof (be2z_range (skipn 4 b) (Forall_skipn _ _ _ Hw)) as H. rewrite skipn_length, Hl in H. exact H. }
  unfold version_bounds_ok in Hv. apply andb_true_iff in Hv as [Hv H2]. apply andb_true_iff in Hv as [H0 H1].
  assert (Hn : 58 ^ Z.of_nat 110 <= be2z b < 58 ^ Z.of_nat (S 110)).
  { change (Z.of_nat 110) with 110. change (Z.of_nat 111) with 111. lia. }
  assert (Hz : count_leading 0 b = 0%nat).
  { destruct b as [|x r]; [discriminate Hl|]. cbn [count_leading]. destruct (x =? 0) eqn:E; [|reflexivity].
    exfalso. apply Z.eqb_eq in E. subst x.
    (* a leading zero byte would make the version field smaller than 2^24 *)
    assert (Hv3 : v = be2z (firstn 3 r)) by (unfold v; cbn [firstn]; apply be2z_cons0).
    pose proof (be2z_range (firstn 3 r) (Forall_firstn _ _ _ (Forall_inv_tail Hw))) as Hrr.
    rewrite firstn_length in Hrr.
    assert (Hp : 256 ^ Z.of_nat (Nat.min 3 (length r)) <= 16777216).
    { destruct (length r) as [|[|[|?]]]; vm_compute; discriminate. }
    apply Z.leb_le in H0. clear -H0 Hv3 Hrr Hp. lia. }
  rewrite Hz. cbn [repeat app]. rewrite map_length, rev_length.
  unfold to_le_full. apply to_le_length; [lia|exact Hn|]. apply log2_fuel.
  assert (Hp : 0 < 58 ^ Z.of_nat 110) by (vm_compute; reflexivity). clear -Hn Hp. lia.
Qed.
