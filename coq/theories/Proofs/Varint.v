(* Streams, fixed-width little-endian integers and varints. *)
From BHW Require Import Lib.Base Lib.Digits Lib.ListAux Model.Helper Spec.Script.

(* ---- fixed-width little-endian = the closed form used by the Spec ---- *)
Lemma to_le_fixed_closed len n :
  to_le_fixed 256 len n = map (fun i => (n / 256 ^ Z.of_nat i) mod 256) (seq 0 len).
Proof.
  revert n; induction len as [|l IH]; intros n; [reflexivity|].
  cbn [to_le_fixed seq map]. f_equal.
  - change (Z.of_nat 0) with 0. rewrite Z.pow_0_r, Z.div_1_r. reflexivity.
  - rewrite IH. rewrite <- seq_shift, map_map. apply map_ext. intros i.
    rewrite Nat2Z.inj_succ, Z.pow_succ_r by lia.
    rewrite Z.div_div by lia. reflexivity.
Qed.

Lemma z2le_spec len n :
  z2le len n = if (n <? 0) || (256 ^ Z.of_nat len <=? n) then Err else Ok (le_bytes len n).
Proof. unfold z2le, le_bytes. rewrite to_le_fixed_closed. reflexivity. Qed.

Lemma z2le_ok len n : 0 <= n < 256 ^ Z.of_nat len -> z2le len n = Ok (le_bytes len n).
Proof.
  intros H. rewrite z2le_spec.
  destruct ((n <? 0) || (256 ^ Z.of_nat len <=? n)) eqn:E; [lia|reflexivity].
Qed.

Lemma le_bytes_length len n : length (le_bytes len n) = len.
Proof. unfold le_bytes. rewrite map_length, seq_length. reflexivity. Qed.

Lemma le_bytes_wf len n : wf_bytes (le_bytes len n).
Proof.
  unfold le_bytes, wf_bytes. apply Forall_forall. intros x Hx.
  apply in_map_iff in Hx as [i [<- _]]. unfold byte_ok. apply Z.mod_pos_bound. lia.
Qed.

Lemma le2z_le_bytes len n : 0 <= n < 256 ^ Z.of_nat len -> le2z (le_bytes len n) = n.
Proof.
  intros H. unfold le2z, le_bytes. rewrite <- to_le_fixed_closed.
  apply of_le_to_le_fixed; lia.
Qed.

Lemma le_bytes_1 n : 0 <= n < 256 -> le_bytes 1 n = [n].
Proof.
  intros H. unfold le_bytes. cbn [seq map]. change (Z.of_nat 0) with 0.
  rewrite Z.pow_0_r, Z.div_1_r, Z.mod_small by lia. reflexivity.
Qed.

(* ---- streams ---- *)
Lemma sread_exact_ok n s c s' :
  sread_exact n s = Ok (c, s') ->
  length c = n /\ sdata s' = sdata s /\ spos s' = (spos s + n)%nat /\
  sremaining s = c ++ sremaining s'.
Proof.
  unfold sread_exact, sread.
  destruct (length (firstn n (skipn (spos s) (sdata s))) =? n)%nat eqn:E; [|discriminate].
  intros H. inversion H; subst c s'; clear H. apply Nat.eqb_eq in E.
  cbn [sdata spos]. repeat split; auto.
  unfold sremaining. cbn [sdata spos]. rewrite E.
  rewrite (Nat.add_comm (spos s) n), <- skipn_skipn. symmetry. apply firstn_skipn.
Qed.

Lemma sread_exact_bound n s c s' :
  sread_exact n s = Ok (c, s') -> (spos s <= length (sdata s))%nat ->
  (spos s' <= length (sdata s))%nat.
Proof.
  intros H Hb. destruct (sread_exact_ok n s c s' H) as [Hl [Hd [Hp Hr]]].
  assert (Hlen : length (sremaining s) = (length (sdata s) - spos s)%nat).
  { unfold sremaining. apply skipn_length. }
  rewrite Hr, app_length in Hlen. lia.
Qed.

Lemma sread_exact_rem s x rest :
  sremaining s = x ++ rest ->
  sread_exact (length x) s = Ok (x, {| sdata := sdata s; spos := spos s + length x |}) /\
  sremaining {| sdata := sdata s; spos := spos s + length x |} = rest.
Proof.
  intros H. unfold sread_exact, sread. unfold sremaining in H. rewrite H.
  rewrite firstn_app, Nat.sub_diag, firstn_all. cbn [firstn]. rewrite app_nil_r, Nat.eqb_refl.
  split; [reflexivity|]. unfold sremaining. cbn [sdata spos].
  rewrite (Nat.add_comm (spos s)), <- skipn_skipn, H.
  rewrite skipn_app, Nat.sub_diag, skipn_all. reflexivity.
Qed.

(* a read that succeeds on a truncated buffer succeeds identically on the full one *)
Lemma sread_exact_zero s : sread_exact 0 s = Ok ([], {| sdata := sdata s; spos := spos s + 0 |}).
Proof. unfold sread_exact, sread. cbn [firstn length Nat.eqb]. reflexivity. Qed.

Lemma sread_exact_prefix k D pos n c s' :
  sread_exact n {| sdata := firstn k D; spos := pos |} = Ok (c, s') ->
  sread_exact n {| sdata := D; spos := pos |} = Ok (c, {| sdata := D; spos := spos s' |}).
Proof.
  intros H. destruct (sread_exact_ok _ _ _ _ H) as [Hl [Hd [Hp Hr]]].
  cbn [sdata spos] in *.
  destruct n as [|n'].
  - destruct c; [|discriminate]. rewrite sread_exact_zero. cbn [sdata spos]. rewrite Hp. reflexivity.
  - assert (Hle : (pos <= length (firstn k D))%nat).
    { destruct (le_lt_dec pos (length (firstn k D))) as [Hle|Hgt]; [exact Hle|].
      unfold sremaining in Hr. cbn [sdata spos] in Hr. rewrite skipn_all2 in Hr by lia.
      symmetry in Hr. apply app_eq_nil in Hr as [Hc _]. subst c. discriminate. }
    assert (Hrem : sremaining {| sdata := D; spos := pos |}
                   = c ++ sremaining s' ++ skipn k D).
    { unfold sremaining in *. cbn [sdata spos] in *.
      rewrite <- (firstn_skipn k D) at 1.
      rewrite skipn_app. replace (pos - length (firstn k D))%nat with 0%nat by lia.
      cbn [skipn]. rewrite Hr, app_assoc. reflexivity. }
    destruct (sread_exact_rem {| sdata := D; spos := pos |} c _ Hrem) as [H1 _].
    cbn [sdata spos] in H1. rewrite Hl in H1. rewrite H1, Hp. reflexivity.
Qed.

(* ---- varints ---- *)
Theorem encode_varint_spec i :
  encode_varint i = match compact_size i with Some b => Ok b | None => Err end.
Proof.
  unfold encode_varint, compact_size, int_to_little_endian.
  destruct (i <? 0) eqn:E0.
  - rewrite !z2le_spec.
    destruct (i <? 253) eqn:E1; [|lia].
    destruct ((i <? 0) || (256 ^ Z.of_nat 1 <=? i)) eqn:E; [reflexivity|lia].
  - destruct (i <? 253) eqn:E1.
    + destruct (i <=? 252) eqn:E2; [|lia].
      rewrite z2le_ok by (change (256 ^ Z.of_nat 1) with 256; lia).
      rewrite le_bytes_1 by lia. reflexivity.
    + destruct (i <=? 252) eqn:E2; [lia|].
      destruct (i <? 65536) eqn:E3.
      * destruct (i <=? 65535) eqn:E4; [|lia].
        rewrite z2le_ok by (change (256 ^ Z.of_nat 2) with 65536; lia). reflexivity.
      * destruct (i <=? 65535) eqn:E4; [lia|].
        destruct (i <? 4294967296) eqn:E5.
        -- destruct (i <=? 4294967295) eqn:E6; [|lia].
           rewrite z2le_ok by (change (256 ^ Z.of_nat 4) with 4294967296; lia). reflexivity.
        -- destruct (i <=? 4294967295) eqn:E6; [lia|].
           destruct (i <? 18446744073709551616) eqn:E7.
           ++ destruct (i <=? 18446744073709551615) eqn:E8; [|lia].
              rewrite z2le_ok by (change (256 ^ Z.of_nat 8) with 18446744073709551616; lia). reflexivity.
           ++ destruct (i <=? 18446744073709551615) eqn:E8; [lia|reflexivity].
Qed.

Theorem varint_refuses i : i < 0 \/ 18446744073709551616 <= i -> encode_varint i = Err.
Proof.
  intros H. rewrite encode_varint_spec. unfold compact_size.
  destruct (i <? 0) eqn:E0; [reflexivity|].
  destruct (i <=? 252) eqn:E1; [lia|]. destruct (i <=? 65535) eqn:E2; [lia|].
  destruct (i <=? 4294967295) eqn:E3; [lia|].
  destruct (i <=? 18446744073709551615) eqn:E4; [lia|reflexivity].
Qed.

Definition varint_len (i : Z) : nat :=
  if i <=? 252 then 1 else if i <=? 65535 then 3 else if i <=? 4294967295 then 5 else 9.

Theorem varint_roundtrip i s rest :
  0 <= i < 18446744073709551616 ->
  exists e, encode_varint i = Ok e /\ length e = varint_len i /\ wf_bytes e /\
    (sremaining s = e ++ rest ->
     read_varint s = Ok (i, {| sdata := sdata s; spos := spos s + length e |}) /\
     sremaining {| sdata := sdata s; spos := spos s + length e |} = rest).
Proof.
  intros Hi. rewrite encode_varint_spec. unfold compact_size, varint_len.
  destruct (i <? 0) eqn:E0; [lia|].
  destruct (i <=? 252) eqn:E1.
  { exists [i]. split; [reflexivity|]. split; [reflexivity|]. split.
    { constructor; [unfold byte_ok; lia|constructor]. }
    intros Hs. destruct (sread_exact_rem s [i] rest Hs) as [H1 H2].
    unfold read_varint. change (length [i]) with 1%nat in *. rewrite H1. cbn [bind].
    destruct (i =? 253) eqn:A1; [lia|]. destruct (i =? 254) eqn:A2; [lia|].
    destruct (i =? 255) eqn:A3; [lia|]. split; [reflexivity|exact H2]. }
  assert (Hgen : forall tag n, (tag =? 253) || (tag =? 254) || (tag =? 255) = true ->
     0 <= i < 256 ^ Z.of_nat n ->
     (sremaining s = (tag :: le_bytes n i) ++ rest ->
      sread_exact 1 s = Ok ([tag], {| sdata := sdata s; spos := spos s + 1 |}) /\
      sread_exact n {| sdata := sdata s; spos := spos s + 1 |}
        = Ok (le_bytes n i, {| sdata := sdata s; spos := spos s + length (tag :: le_bytes n i) |}) /\
      sremaining {| sdata := sdata s; spos := spos s + length (tag :: le_bytes n i) |} = rest)).
  { intros tag n _ Hn Hs.
    change ((tag :: le_bytes n i) ++ rest) with ([tag] ++ (le_bytes n i ++ rest)) in Hs.
    destruct (sread_exact_rem s [tag] _ Hs) as [H1 H2]. change (length [tag]) with 1%nat in *.
    split; [exact H1|].
    destruct (sread_exact_rem _ (le_bytes n i) rest H2) as [H3 H4].
    cbn [sdata spos] in *. rewrite le_bytes_length in *.
    cbn [length]. rewrite le_bytes_length.
    replace (spos s + S n)%nat with (spos s + 1 + n)%nat by lia. split; assumption. }
  destruct (i <=? 65535) eqn:E2.
  { exists (253 :: le_bytes 2 i). split; [reflexivity|]. split; [cbn [length]; rewrite le_bytes_length; reflexivity|].
    split. { constructor; [unfold byte_ok; lia|apply le_bytes_wf]. }
    intros Hs. destruct (Hgen 253 2%nat eq_refl ltac:(change (256 ^ Z.of_nat 2) with 65536; lia) Hs) as [H1 [H2 H3]].
    unfold read_varint. rewrite H1. cbn [bind]. change (253 =? 253) with true. cbv iota.
    rewrite H2. cbn [bind]. unfold little_endian_to_int.
    rewrite le2z_le_bytes by (change (256 ^ Z.of_nat 2) with 65536; lia). split; [reflexivity|exact H3]. }
  destruct (i <=? 4294967295) eqn:E3.
  { exists (254 :: le_bytes 4 i). split; [reflexivity|]. split; [cbn [length]; rewrite le_bytes_length; reflexivity|].
    split. { constructor; [unfold byte_ok; lia|apply le_bytes_wf]. }
    intros Hs. destruct (Hgen 254 4%nat eq_refl ltac:(change (256 ^ Z.of_nat 4) with 4294967296; lia) Hs) as [H1 [H2 H3]].
    unfold read_varint. rewrite H1. cbn [bind]. change (254 =? 253) with false. change (254 =? 254) with true. cbv iota.
    rewrite H2. cbn [bind]. unfold little_endian_to_int.
    rewrite le2z_le_bytes by (change (256 ^ Z.of_nat 4) with 4294967296; lia). split; [reflexivity|exact H3]. }
  destruct (i <=? 18446744073709551615) eqn:E4; [|lia].
  exists (255 :: le_bytes 8 i). split; [reflexivity|]. split; [cbn [length]; rewrite le_bytes_length; reflexivity|].
  split. { constructor; [unfold byte_ok; lia|apply le_bytes_wf]. }
  intros Hs. destruct (Hgen 255 8%nat eq_refl ltac:(change (256 ^ Z.of_nat 8) with 18446744073709551616; lia) Hs) as [H1 [H2 H3]].
  unfold read_varint. rewrite H1. cbn [bind]. change (255 =? 253) with false. change (255 =? 254) with false.
  change (255 =? 255) with true. cbv iota.
  rewrite H2. cbn [bind]. unfold little_endian_to_int.
  rewrite le2z_le_bytes by (change (256 ^ Z.of_nat 8) with 18446744073709551616; lia). split; [reflexivity|exact H3].
Qed.

(* accounting for read_varint: position advances by exactly the size named by the tag *)
Lemma read_varint_ok s v s' :
  read_varint s = Ok (v, s') ->
  sdata s' = sdata s /\ (spos s < spos s')%nat /\
  ((spos s <= length (sdata s))%nat -> (spos s' <= length (sdata s))%nat).
Proof.
  unfold read_varint. destruct (sread_exact 1 s) as [[b s1]|] eqn:E1; cbn [bind]; [|discriminate].
  destruct (sread_exact_ok _ _ _ _ E1) as [Hl [Hd [Hp _]]].
  pose proof (sread_exact_bound _ _ _ _ E1) as Hb1.
  destruct b as [|i [|? ?]]; try discriminate.
  assert (Hstep : forall n, (match sread_exact n s1 with
            | Ok (d, s2) => Ok (little_endian_to_int d, s2) | Err => Err end) = Ok (v, s') ->
            sdata s' = sdata s /\ (spos s < spos s')%nat /\
            ((spos s <= length (sdata s))%nat -> (spos s' <= length (sdata s))%nat)).
  { intros n H. destruct (sread_exact n s1) as [[d s2]|] eqn:E2; [|discriminate].
    inversion H; subst s2. destruct (sread_exact_ok _ _ _ _ E2) as [Hl2 [Hd2 [Hp2 _]]].
    pose proof (sread_exact_bound _ _ _ _ E2) as Hb2.
    rewrite Hd2, Hd. split; [reflexivity|]. split; [lia|]. intros Hle.
    rewrite Hd in Hb2. apply Hb2. apply Hb1. exact Hle. }
  destruct (i =? 253); [apply (Hstep 2%nat)|].
  destruct (i =? 254); [apply (Hstep 4%nat)|].
  destruct (i =? 255); [apply (Hstep 8%nat)|].
  intros H. inversion H; subst s1. split; [exact Hd|]. split; [lia|]. exact Hb1.
Qed.

(* monotonic in the buffer: success on a prefix means the same success on the full buffer *)
Lemma read_varint_prefix k D pos v s' :
  read_varint {| sdata := firstn k D; spos := pos |} = Ok (v, s') ->
  read_varint {| sdata := D; spos := pos |} = Ok (v, {| sdata := D; spos := spos s' |}).
Proof.
  unfold read_varint.
  destruct (sread_exact 1 {| sdata := firstn k D; spos := pos |}) as [[b s1]|] eqn:E1; cbn [bind]; [|discriminate].
  pose proof (sread_exact_prefix _ _ _ _ _ _ E1) as F1. rewrite F1. cbn [bind].
  destruct (sread_exact_ok _ _ _ _ E1) as [_ [Hd1 _]]. cbn [sdata] in Hd1.
  destruct s1 as [d1 p1]. cbn [sdata spos] in *. subst d1.
  destruct b as [|i [|? ?]]; try discriminate.
  assert (Hstep : forall n,
     (do (d, s2) <- sread_exact n {| sdata := firstn k D; spos := p1 |}; Ok (little_endian_to_int d, s2)) = Ok (v, s') ->
     (do (d, s2) <- sread_exact n {| sdata := D; spos := p1 |}; Ok (little_endian_to_int d, s2))
       = Ok (v, {| sdata := D; spos := spos s' |})).
  { intros n H. destruct (sread_exact n {| sdata := firstn k D; spos := p1 |}) as [[d s2]|] eqn:E2; cbn [bind] in H; [|discriminate].
    inversion H; subst s2 v. rewrite (sread_exact_prefix _ _ _ _ _ _ E2). reflexivity. }
  destruct (i =? 253); [apply Hstep|]. destruct (i =? 254); [apply Hstep|]. destruct (i =? 255); [apply Hstep|].
  intros H. inversion H; subst. reflexivity.
Qed.
