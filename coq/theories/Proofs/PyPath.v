(* Source semantics of Bip32Path.convert_hardened / is_hardened / is_private (regenerated terms, static methods of
   wallet_utils.Bip32Path) = Model/WalletUtils.v, for every ASCII string. *)
From BHW Require Import Lib.Base Lib.ListAux Lib.PyInt Model.Helper Model.WalletUtils Py.Interp Py.Tactics.
From BHWGen Require Import Consts PyAst.
Open Scope string_scope.
Open Scope Z_scope.
Open Scope list_scope.

Lemma ascii_app a b : ascii (a ++ b) = ascii a && ascii b.
Proof. unfold ascii. apply forallb_app. Qed.

Lemma index_last {A} (l : list A) x : index (l ++ [x]) (-1) = Val x.
Proof.
  unfold index. replace (-1 <? 0) with true by reflexivity. rewrite app_length. cbn [List.length].
  replace (-1 + Z.of_nat (List.length l + 1)) with (Z.of_nat (List.length l)) by lia.
  replace ((Z.of_nat (List.length l) <? 0) || (Z.of_nat (List.length l + 1) <=? Z.of_nat (List.length l))) with false by lia.
  rewrite Nat2Z.id. rewrite nth_error_app2 by lia. rewrite Nat.sub_diag. reflexivity.
Qed.

Lemma convert_hardened_sem ext fuel s :
  ascii s = true ->
  sem_wallet_utils__Bip32Path__convert_hardened ext fuel [VStr s]
  = match convert_hardened s with
    | Ok n => Val (VInt n)
    | Err => Exc (match s with [] => IndexError | _ => ValueError end)
    end.
Proof.
  intros Ha.
  unfold sem_wallet_utils__Bip32Path__convert_hardened, call, ast_wallet_utils__Bip32Path__convert_hardened, convert_hardened.
  destruct (rev s) as [|last rinit] eqn:Er.
  { assert (s = []) by (apply (f_equal (@rev Z)) in Er; rewrite rev_involutive in Er; exact Er). subst s. reflexivity. }
  assert (Hs : s = rev rinit ++ [last]) by (apply (f_equal (@rev Z)) in Er; rewrite rev_involutive in Er; exact Er).
  assert (Hne : match s with [] => IndexError | _ => ValueError end = ValueError)
    by (rewrite Hs; destruct (rev rinit); reflexivity).
  rewrite Hne. clear Hne.
  rewrite Hs in Ha. rewrite ascii_app in Ha. apply andb_true_iff in Ha as [Ha1 Ha2].
  pystep. rewrite Hs at 1. rewrite index_last. pystep.
  rewrite !andb_true_r.
  destruct ((last =? 39) || (last =? 104)) eqn:EL.
  - rewrite orb_false_r, EL.
    pystep. change (-1) with (- (1)). rewrite slice_to_neg by lia. change (Z.to_nat 1) with 1%nat.
    rewrite Hs at 1. rewrite drop_last_one. unfold int_of_str. rewrite Ha1.
    destruct (py_int (rev rinit)) as [n|]; pystep; [|reflexivity].
    change (2 ^ 31) with 2147483648.
    destruct (0 <=? n) eqn:N0; pystep; [|reflexivity].
    destruct (n <? 2147483648) eqn:N1; pystep; reflexivity.
  - rewrite orb_false_r, EL.
    assert (Has : ascii s = true) by (rewrite Hs, ascii_app, Ha1, Ha2; reflexivity).
    pystep. unfold int_of_str. rewrite Has.
    destruct (py_int s) as [n|]; pystep; [|reflexivity].
    change (2 ^ 32) with 4294967296.
    destruct (0 <=? n) eqn:N0; pystep; [|reflexivity].
    destruct (n <? 4294967296) eqn:N1; pystep; reflexivity.
Qed.

Lemma is_hardened_sem ext fuel n :
  sem_wallet_utils__Bip32Path__is_hardened ext fuel [VInt n] = Val (VBool (2147483648 <=? n)).
Proof. reflexivity. Qed.
