(* RIPEMD-160 padding: for EVERY message length the bytes fed to the compression function are
   message || 0x80 || zeros || 64-bit little-endian bit length, a whole number of 64-byte blocks. *)
From BHW Require Import Lib.Base Lib.Digits Lib.ListAux Model.Helper Model.Ripemd Spec.Script Proofs.Varint.

Lemma blocks_concat n : forall data, (64 * n <= length data)%nat -> concat (blocks n data) = firstn (64 * n) data.
Proof.
  induction n as [|k IH]; intros data H; [reflexivity|].
  cbn [blocks concat]. rewrite IH by (rewrite skipn_length; lia).
  replace (64 * S k)%nat with (64 + 64 * k)%nat by lia.
  rewrite <- (firstn_skipn 64 data) at 3. rewrite firstn_app, firstn_length, Nat.min_l by lia.
  replace (64 + 64 * k - 64)%nat with (64 * k)%nat by lia.
  rewrite (firstn_all2 (n := (64 + 64 * k)%nat)) by (rewrite firstn_length; lia). reflexivity.
Qed.

Lemma land_lnot63 a : 0 <= a -> Z.land a (Z.lnot 63) = 64 * (a / 64).
Proof.
  intros Ha. rewrite <- Z.ldiff_land. change 63 with (Z.ones 6). rewrite Z.ldiff_ones_r by lia.
  rewrite Z.shiftr_div_pow2, Z.shiftl_mul_pow2 by lia. change (2 ^ 6) with 64. lia.
Qed.

Definition pad_zeros (len : Z) : nat := Z.to_nat ((55 - len) mod 64).

Theorem processed_spec data :
  8 * Z.of_nat (length data) < 2 ^ 64 ->
  let stream := data ++ [128] ++ repeat 0 (pad_zeros (Z.of_nat (length data))) ++ le_bytes 8 (8 * Z.of_nat (length data)) in
  processed data = Ok stream /\ (length stream mod 64 = 0)%nat /\ (pad_zeros (Z.of_nat (length data)) < 64)%nat.
Proof.
  intros Hlen. cbv zeta. set (len := Z.of_nat (length data)) in *.
  assert (Hl0 : 0 <= len) by (unfold len; lia).
  unfold processed, fin_of. fold len.
  rewrite z2le_ok by (change (256 ^ Z.of_nat 8) with (2 ^ 64); lia). cbn [bind].
  rewrite land_lnot63 by exact Hl0.
  change 63 with (Z.ones 6). rewrite Z.land_ones by lia. change (2 ^ 6) with 64.
  rewrite Z.shiftr_div_pow2 by lia. change (2 ^ 6) with 64.
  set (q := len / 64). set (r := len mod 64).
  assert (Hqr : len = 64 * q + r /\ 0 <= r < 64) by (unfold q, r; split; [apply Z.div_mod; lia|apply Z.mod_pos_bound; lia]).
  destruct Hqr as [Hqr Hr].
  assert (Hk : (119 - len) mod 64 = (55 - len) mod 64).
  { replace (119 - len) with ((55 - len) + 1 * 64) by lia. apply Z.mod_add. lia. }
  rewrite Hk. fold (pad_zeros len).
  assert (Hkz : Z.of_nat (pad_zeros len) = (55 - len) mod 64).
  { unfold pad_zeros. rewrite Z2Nat.id; [reflexivity|]. apply Z.mod_pos_bound. lia. }
  pose proof (Z.mod_pos_bound (55 - len) 64 ltac:(lia)) as Hkb.
  assert (Hq0 : 0 <= q) by (unfold q; apply Z.div_pos; lia).
  assert (Hqn : (64 * Z.to_nat q <= length data)%nat) by lia.
  rewrite blocks_concat by exact Hqn.
  replace (Z.to_nat (64 * q)) with (64 * Z.to_nat q)%nat by lia.
  set (fin := skipn (64 * Z.to_nat q) data ++ (128 :: repeat 0 (pad_zeros len)) ++ le_bytes 8 (8 * len)).
  assert (Hfl : Z.of_nat (length fin) = r + 1 + (55 - len) mod 64 + 8).
  { unfold fin. rewrite !app_length, skipn_length. cbn [length]. rewrite repeat_length, le_bytes_length. lia. }
  assert (Hmod : (r + 1 + (55 - len) mod 64 + 8) mod 64 = 0).
  { rewrite Hqr. clear -Hr.
    assert (E : (55 - (64 * q + r)) mod 64 = (55 - r) mod 64).
    { replace (55 - (64 * q + r)) with ((55 - r) + (- q) * 64) by lia. apply Z.mod_add. lia. }
    rewrite E. destruct (Z_le_gt_dec r 55).
    - rewrite (Z.mod_small (55 - r)) by lia. replace (r + 1 + (55 - r) + 8) with (1 * 64) by lia. apply Z.mod_mul. lia.
    - replace (55 - r) with ((119 - r) + (-1) * 64) by lia. rewrite Z.mod_add by lia.
      rewrite (Z.mod_small (119 - r)) by lia. replace (r + 1 + (119 - r) + 8) with (2 * 64) by lia. apply Z.mod_mul. lia. }
  assert (Hnf : (64 * Z.to_nat (Z.of_nat (length fin) / 64))%nat = length fin).
  { rewrite Hfl. pose proof (Z.div_mod (r + 1 + (55 - len) mod 64 + 8) 64 ltac:(lia)) as Hd. rewrite Hmod in Hd.
    assert (0 <= (r + 1 + (55 - len) mod 64 + 8) / 64) by (apply Z.div_pos; lia). lia. }
  rewrite (Z.shiftr_div_pow2 (Z.of_nat (length fin))) by lia. change (2 ^ 6) with 64.
  rewrite blocks_concat by lia. rewrite Hnf, firstn_all.
  unfold fin. rewrite app_assoc, firstn_skipn.
  split; [reflexivity|]. split; [|lia].
  assert (Hsl : Z.of_nat (length (data ++ [128] ++ repeat 0 (pad_zeros len) ++ le_bytes 8 (8 * len))) = len + 1 + (55 - len) mod 64 + 8).
  { rewrite !app_length. cbn [length]. rewrite repeat_length, le_bytes_length. unfold len in *. lia. }
  apply Nat2Z.inj. rewrite Nat2Z.inj_mod by lia. rewrite Hsl. change (Z.of_nat 64) with 64. change (Z.of_nat 0) with 0.
  rewrite Hqr at 1. replace (64 * q + r + 1 + (55 - len) mod 64 + 8) with ((r + 1 + (55 - len) mod 64 + 8) + q * 64) by lia.
  rewrite Z.mod_add by lia. exact Hmod.
Qed.

(* published test vectors (tests of the transcription of the round function; not the unbounded claim) *)
Example rmd_empty : ripemd160 [] = Ok [156;17;133;165;197;233;252;84;97;40;8;151;126;232;245;72;178;37;141;49].
Proof. vm_compute. reflexivity. Qed.
Example rmd_abc : ripemd160 [97;98;99] = Ok [142;178;8;247;224;93;152;122;155;4;74;142;152;198;176;135;241;90;11;252].
Proof. vm_compute. reflexivity. Qed.
