(* hex(num)[2:], padded to even length, through bytes.fromhex = the minimal big-endian bytes of num
   (the detour decode_base58 takes): base-16 digits regroup in pairs into base-256 digits. *)
From BHW Require Import Lib.Base Lib.Digits Lib.ListAux Model.Helper Proofs.Base58 Py.Interp Py.Tactics Proofs.PyHelper.
Open Scope Z_scope.
Open Scope list_scope.

Lemma unhex_hexdigit d : 0 <= d < 16 -> unhex (hexdigit d) = Some d.
Proof.
  intros H. unfold hexdigit, unhex. destruct (d <? 10) eqn:E.
  - replace ((48 <=? 48 + d) && (48 + d <=? 57)) with true by lia. f_equal. lia.
  - replace ((48 <=? 87 + d) && (87 + d <=? 57)) with false by lia.
    replace ((97 <=? 87 + d) && (87 + d <=? 102)) with true by lia. f_equal. lia.
Qed.

(* little-endian hex digits paired into bytes *)
Fixpoint pair_le (ds : list Z) : list Z :=
  match ds with
  | lo :: hi :: r => (lo + 16 * hi) :: pair_le r
  | [lo] => [lo]
  | [] => []
  end.

Lemma pair_le_ind (P : list Z -> Prop) :
  P [] -> (forall a, P [a]) -> (forall a b r, P r -> P (a :: b :: r)) -> forall l, P l.
Proof.
  intros H0 H1 H2. fix IH 1. intros [|a [|b r]]; [exact H0|apply H1|apply H2; apply IH].
Qed.

Lemma pair_le_value ds : of_le 256 (pair_le ds) = of_le 16 ds.
Proof.
  induction ds using pair_le_ind; cbn [pair_le of_le]; [reflexivity|lia|]. rewrite IHds. lia.
Qed.

Lemma pair_le_ok ds : digits_ok 16 ds -> digits_ok 256 (pair_le ds).
Proof.
  induction ds using pair_le_ind; intros H; cbn [pair_le].
  - constructor.
  - inversion H; subst. constructor; [unfold digit_ok in *; lia|constructor].
  - inversion H as [|? ? Ha H']; subst. inversion H' as [|? ? Hb Hr]; subst.
    constructor; [unfold digit_ok in *; lia|]. apply IHds. exact Hr.
Qed.

Lemma pair_le_canon ds : digits_ok 16 ds -> le_canon ds -> le_canon (pair_le ds).
Proof.
  induction ds using pair_le_ind; intros Hok Hc; cbn [pair_le].
  - left; reflexivity.
  - exact Hc.
  - right. inversion Hok as [|? ? Ha H']; subst. inversion H' as [|? ? Hb Hr]; subst.
    destruct Hc as [Hc|Hc]; [discriminate|].
    destruct ds as [|c r'].
    + cbn [pair_le last] in *. unfold digit_ok in *. lia.
    + assert (Hc' : le_canon (c :: r')) by (right; exact Hc).
      destruct (IHds Hr Hc') as [E|E].
      * destruct r' as [|? ?]; cbn [pair_le] in E; discriminate.
      * destruct (pair_le (c :: r')) as [|x xs] eqn:Ep; [destruct r'; cbn [pair_le] in Ep; discriminate|exact E].
Qed.

Lemma to_le_full_256_16 n : 0 <= n -> to_le_full 256 n = pair_le (to_le_full 16 n).
Proof.
  intros Hn.
  rewrite <- (to_le_full_of_le 256 (pair_le (to_le_full 16 n))); try lia.
  - rewrite pair_le_value, of_le_to_le_full by lia. reflexivity.
  - apply pair_le_ok. apply to_le_full_ok. lia.
  - apply pair_le_canon; [apply to_le_full_ok; lia|apply to_le_full_canon; lia].
Qed.

(* fromhex on an even-length prefix of hex digits *)
Definition is_hex (c : Z) : bool := match unhex c with Some _ => true | None => false end.

Lemma fromhex_pair a b r h l : unhex a = Some h -> unhex b = Some l ->
  fromhex (a :: b :: r) = bindR (fromhex r) (fun t => Val (16 * h + l :: t)).
Proof. intros Ha Hb. cbn [fromhex]. rewrite Ha, Hb. reflexivity. Qed.

Lemma fromhex_app a b : Nat.even (List.length a) = true -> forallb is_hex a = true ->
  fromhex (a ++ b) = bindR (fromhex a) (fun x => bindR (fromhex b) (fun y => Val (x ++ y))).
Proof.
  revert b. induction a using pair_le_ind; intros b0 He Hh.
  - cbn [app fromhex bindR]. destruct (fromhex b0); reflexivity.
  - discriminate.
  - cbn [forallb] in Hh. apply andb_true_iff in Hh as [Ha Hh]. apply andb_true_iff in Hh as [Hb Hh].
    unfold is_hex in Ha, Hb. destruct (unhex a) as [h|] eqn:Ea; [|discriminate]. destruct (unhex b) as [l|] eqn:Eb; [|discriminate].
    cbn [app]. rewrite (fromhex_pair a b (a0 ++ b0) h l Ea Eb), (fromhex_pair a b a0 h l Ea Eb).
    rewrite IHa by assumption. destruct (fromhex a0); cbn [bindR]; [|reflexivity].
    destruct (fromhex b0); reflexivity.
Qed.

Definition pad_even (h : list Z) : list Z := if Nat.even (List.length h) then h else 48 :: h.

Lemma is_hex_hexdigit d : 0 <= d < 16 -> is_hex (hexdigit d) = true.
Proof. intros H. unfold is_hex. rewrite unhex_hexdigit by exact H. reflexivity. Qed.

Lemma fromhex_pairs ds : digits_ok 16 ds ->
  fromhex (pad_even (map hexdigit (rev ds))) = Val (rev (pair_le ds)) /\
  Nat.even (List.length (pad_even (map hexdigit (rev ds)))) = true /\
  forallb is_hex (pad_even (map hexdigit (rev ds))) = true.
Proof.
  induction ds using pair_le_ind; intros Hok.
  - repeat split; reflexivity.
  - inversion Hok as [|? ? Ha _]; subst. unfold digit_ok in Ha. cbn [rev app map pad_even List.length Nat.even pair_le].
    split; [|split; [reflexivity|]].
    + rewrite (fromhex_pair 48 (hexdigit a) [] 0 a eq_refl (unhex_hexdigit a Ha)). reflexivity.
    + cbn [forallb]. rewrite (is_hex_hexdigit a Ha). reflexivity.
  - inversion Hok as [|? ? Ha H']; subst. inversion H' as [|? ? Hb Hr]; subst. unfold digit_ok in Ha, Hb.
    destruct (IHds Hr) as (E1 & E2 & E3).
    cbn [rev]. rewrite <- app_assoc. cbn [app]. rewrite map_app. cbn [map].
    assert (Hp : pad_even (map hexdigit (rev ds) ++ [hexdigit b; hexdigit a])
                 = pad_even (map hexdigit (rev ds)) ++ [hexdigit b; hexdigit a]).
    { unfold pad_even. rewrite app_length. cbn [List.length]. rewrite Nat.add_comm. cbn [Nat.add Nat.even].
      destruct (Nat.even (List.length (map hexdigit (rev ds)))); reflexivity. }
    rewrite Hp. split; [|split].
    + rewrite fromhex_app by assumption. rewrite E1. cbn [bindR].
      rewrite (fromhex_pair (hexdigit b) (hexdigit a) [] b a (unhex_hexdigit b Hb) (unhex_hexdigit a Ha)).
      cbn [fromhex bindR pair_le rev]. f_equal. f_equal. f_equal. lia.
    + rewrite app_length. cbn [List.length]. rewrite Nat.add_comm. cbn [Nat.add Nat.even]. exact E2.
    + rewrite forallb_app, E3. cbn [forallb]. rewrite (is_hex_hexdigit a Ha), (is_hex_hexdigit b Hb). reflexivity.
Qed.

(* the statement decode_base58 needs *)
Lemma hex_roundtrip num : 0 <= num ->
  fromhex (pad_even (map hexdigit (digits_be 16 num))) = Val (min_be_bytes num).
Proof.
  intros Hn. unfold digits_be, min_be_bytes. destruct (num =? 0) eqn:E.
  - reflexivity.
  - fold (to_le_full 16 num). fold (to_le_full 256 num).
    destruct (fromhex_pairs (to_le_full 16 num) (to_le_full_ok 16 num ltac:(lia))) as [H _].
    rewrite H. rewrite to_le_full_256_16 by lia. reflexivity.
Qed.
