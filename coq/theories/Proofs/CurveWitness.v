(* Non-vacuity of curve_laws: the cyclic group Z_n in discrete-log representation
   (points are the non-zero residues, k.G = k mod n) with injective byte encodings
   satisfies every law, for n = the regenerated CURVE_ORDER. *)
From BHW Require Import Lib.Base Lib.Digits Lib.ListAux Model.Helper Spec.Curve Proofs.Endian.
From BHWGen Require Import Consts.
From Coq Require Import Eqdep_dec.

Definition n := CURVE_ORDER.
Definition in_range (k : Z) : bool := (0 <? k) && (k <? n).
Definition wpt := { k : Z | in_range k = true }.

Lemma wpt_eq (a b : wpt) : proj1_sig a = proj1_sig b -> a = b.
Proof.
  destruct a as [x px], b as [y py]. simpl. intros ->. f_equal.
  apply UIP_dec. apply bool_dec.
Qed.

Definition mk (k : Z) : option wpt :=
  match in_range k as b return in_range k = b -> option wpt with
  | true => fun H => Some (exist _ k H)
  | false => fun _ => None
  end eq_refl.

Lemma mk_some k : in_range k = true -> exists p, mk k = Some p /\ proj1_sig p = k.
Proof.
  intros H. unfold mk.
  generalize (eq_refl (in_range k)). generalize (in_range k) at 2 3.
  intros b. destruct b; intros e; [eexists; split; [reflexivity|reflexivity]|congruence].
Qed.
Lemma mk_none k : in_range k = false -> mk k = None.
Proof.
  intros H. unfold mk.
  generalize (eq_refl (in_range k)). generalize (in_range k) at 2 3.
  intros b. destruct b; intros e; [congruence|reflexivity].
Qed.
Lemma mk_val k p : mk k = Some p -> proj1_sig p = k.
Proof.
  intros H. destruct (in_range k) eqn:E.
  - destruct (mk_some k E) as [q [H1 H2]]. rewrite H in H1. congruence.
  - rewrite mk_none in H by exact E. discriminate.
Qed.

Definition val (o : option wpt) : Z := match o with Some p => proj1_sig p | None => 0 end.
Definition w_gmul (k : Z) : option wpt := mk (k mod n).
Definition w_padd (a b : option wpt) : option wpt := mk ((val a + val b) mod n).
Definition w_ser_c (p : wpt) : bytes := 2 :: rev (to_le_fixed 256 32 (proj1_sig p)).
Definition w_ser_u (p : wpt) : bytes := 4 :: rev (to_le_fixed 256 64 (proj1_sig p)).
Definition w_parse (b : bytes) : option wpt :=
  match b with
  | 2 :: r => if (length r =? 32)%nat then mk (be2z r) else None
  | 4 :: r => if (length r =? 64)%nat then mk (be2z r) else None
  | _ => None
  end.

Definition witness : curve :=
  {| pt := wpt; order := n; G_mul := w_gmul; padd := w_padd;
     ser_c := w_ser_c; ser_u := w_ser_u; parse_pt := w_parse |}.

Lemma n_pos : 2 <= n. Proof. vm_compute. intros H; discriminate. Qed.
Lemma n_lt : n < 256 ^ Z.of_nat 32. Proof. vm_compute. reflexivity. Qed.
Lemma n_lt64 : n < 256 ^ Z.of_nat 64. Proof. vm_compute. reflexivity. Qed.

Lemma wpt_range (p : wpt) : 0 < proj1_sig p < n.
Proof. destruct p as [k H]. simpl. unfold in_range in H. lia. Qed.

Lemma val_mk k : val (mk (k mod n)) = k mod n.
Proof.
  pose proof n_pos. pose proof (Z.mod_pos_bound k n ltac:(lia)).
  destruct (in_range (k mod n)) eqn:E.
  - destruct (mk_some _ E) as [p [H1 H2]]. rewrite H1. exact H2.
  - rewrite mk_none by exact E. simpl. unfold in_range in E. lia.
Qed.

Lemma be_fixed_roundtrip len k : 0 <= k < 256 ^ Z.of_nat len ->
  be2z (rev (to_le_fixed 256 len k)) = k.
Proof. intros H. rewrite be2z_rev', rev_involutive. apply of_le_to_le_fixed; lia. Qed.

Theorem witness_laws : curve_laws witness.
Proof.
  pose proof n_pos as Hn.
  constructor; cbn [witness pt order G_mul padd ser_c ser_u parse_pt].
  - exact Hn.
  - intros k. unfold w_gmul. rewrite Z.mod_mod by lia. reflexivity.
  - unfold w_gmul. rewrite Z.mod_0_l by lia. apply mk_none. reflexivity.
  - intros k Hk. unfold w_gmul. rewrite Z.mod_small by lia.
    destruct (mk_some k) as [p [H1 _]]; [unfold in_range; lia|]. rewrite H1. discriminate.
  - intros a b. unfold w_gmul, w_padd. rewrite !val_mk, <- Z.add_mod by lia. reflexivity.
  - intros a b K Ha Hb H1 H2. unfold w_gmul in *. rewrite Z.mod_small in H1, H2 by lia.
    apply mk_val in H1. apply mk_val in H2. congruence.
  - intros K. unfold w_ser_c. cbn [length]. rewrite rev_length, to_le_fixed_length. reflexivity.
  - intros K. unfold w_ser_c. constructor; [unfold byte_ok; lia|]. apply Forall_rev, to_le_fixed_ok. lia.
  - intros K. exists 2, (rev (to_le_fixed 256 32 (proj1_sig K))). split; [reflexivity|left; reflexivity].
  - intros K. unfold w_ser_u. cbn [length]. rewrite rev_length, to_le_fixed_length. reflexivity.
  - intros K. unfold w_ser_u. constructor; [unfold byte_ok; lia|]. apply Forall_rev, to_le_fixed_ok. lia.
  - intros K. eexists. reflexivity.
  - intros K K' H. unfold w_ser_c in H.
    assert (H1 : rev (to_le_fixed 256 32 (proj1_sig K)) = rev (to_le_fixed 256 32 (proj1_sig K')))
      by (apply (f_equal (@tl Z)) in H; exact H).
    apply wpt_eq.
    pose proof (wpt_range K). pose proof (wpt_range K'). pose proof n_lt as Hl.
    rewrite <- (be_fixed_roundtrip 32 (proj1_sig K)) by lia.
    rewrite <- (be_fixed_roundtrip 32 (proj1_sig K')) by lia. rewrite H1. reflexivity.
  - intros K. unfold w_parse, w_ser_c. rewrite rev_length, to_le_fixed_length. cbn [Nat.eqb].
    change (32 =? 32)%nat with true. cbv iota.
    pose proof (wpt_range K). rewrite be_fixed_roundtrip by (pose proof n_lt; lia).
    destruct (mk_some (proj1_sig K)) as [p [H1 H2]]; [exact (proj2_sig K)|].
    rewrite H1. f_equal. apply wpt_eq. exact H2.
  - intros K. unfold w_parse, w_ser_u. rewrite rev_length, to_le_fixed_length.
    change (64 =? 64)%nat with true. cbv iota.
    pose proof (wpt_range K). rewrite be_fixed_roundtrip by (pose proof n_lt64; lia).
    destruct (mk_some (proj1_sig K)) as [p [H1 H2]]; [exact (proj2_sig K)|].
    rewrite H1. f_equal. apply wpt_eq. exact H2.
Qed.

Lemma witness_order : order witness = CURVE_ORDER.
Proof. reflexivity. Qed.
