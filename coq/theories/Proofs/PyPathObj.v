(* Source semantics of the Bip32Path object methods (regenerated terms of wallet_utils.py): list_get, _to_list, to_list,
   integrity_check, the constructor, m, repr_hardened, __repr__ and parse = Model/WalletUtils.v. *)
From BHW Require Import Lib.Base Lib.ListAux Lib.PyInt Model.Helper Model.WalletUtils Py.Interp Py.Tactics Proofs.PyPath.
From BHWGen Require Import Consts PyAst.
Open Scope string_scope.
Open Scope Z_scope.
Open Scope list_scope.

Definition vopt (o : option Z) : val := match o with Some n => VInt n | None => VNone end.
(* a path object: the five slots and the private flag, in __init__ order *)
Definition vpath5 (a b c d e : option Z) (prv : bool) : val :=
  VObj "Bip32Path" [vopt a; vopt b; vopt c; vopt d; vopt e; VBool prv].

Lemma index_nat {A} (l : list A) (i : nat) :
  index l (Z.of_nat i) = match nth_error l i with Some v => Val v | None => Exc IndexError end.
Proof.
  unfold index. cbv zeta. assert (H0 : (Z.of_nat i <? 0) = false) by lia. rewrite !H0. cbn [orb].
  destruct (Z.of_nat (List.length l) <=? Z.of_nat i) eqn:E.
  - assert (H : nth_error l i = None) by (apply nth_error_None; lia). rewrite H. reflexivity.
  - rewrite Nat2Z.id. destruct (nth_error l i) eqn:H; [reflexivity|]. apply nth_error_None in H. lia.
Qed.

Lemma list_get_sem ext fuel (l : list val) (i : nat) :
  sem_wallet_utils__list_get ext fuel [VList l; VInt (Z.of_nat i)]
  = Val (match nth_error l i with Some v => v | None => VNone end).
Proof.
  unfold sem_wallet_utils__list_get, call, ast_wallet_utils__list_get. pystep.
  rewrite index_nat. destruct (nth_error l i); reflexivity.
Qed.

Lemma _to_list_sem ext fuel a b c d e prv :
  sem_wallet_utils__Bip32Path___to_list ext fuel [vpath5 a b c d e prv] = Val (VList [vopt a; vopt b; vopt c; vopt d; vopt e]).
Proof. reflexivity. Qed.

Lemma to_list_sem ext fuel a b c d e prv :
  sem_wallet_utils__Bip32Path__to_list ext fuel [vpath5 a b c d e prv] = Val (VList (map VInt (somes [a; b; c; d; e]))).
Proof. destruct a, b, c, d, e; reflexivity. Qed.

Lemma m_sem ext fuel a b c d e prv :
  sem_wallet_utils__Bip32Path__m ext fuel [vpath5 a b c d e prv] = Val (VStr (if prv then [109] else [77])).
Proof. destruct prv; reflexivity. Qed.
