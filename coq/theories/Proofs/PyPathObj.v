(* Source semantics of the Bip32Path object methods (regenerated terms of wallet_utils.py): list_get, _to_list, to_list,
   integrity_check, the constructor, m, repr_hardened, __repr__ and parse = Model/WalletUtils.v. *)
From BHW Require Import Lib.Base Lib.ListAux Lib.PyInt Model.Helper Model.WalletUtils Py.Interp Py.Tactics Proofs.Path Proofs.PyPath.
From BHWGen Require Import Consts PyAst.
Open Scope string_scope.
Open Scope Z_scope.
Open Scope list_scope.

Definition vopt (o : option Z) : val := match o with Some n => VInt n | None => VNone end.
(* a path object: the five slots and the private flag, in __init__ order *)
Definition vpath5 (a b c d e : option Z) (prv : bool) : val :=
  VObj "Bip32Path" [vopt a; vopt b; vopt c; vopt d; vopt e; VBool prv].

Lemma index_nat {A} (l : list A) (i : nat) :
  index l (Z.of_nat i) = match nth_error l i with Some v => Val v | None => Exc IndexError end.
Proof.
  unfold index. cbv zeta. assert (H0 : (Z.of_nat i <? 0) = false) by lia. rewrite !H0. cbn [orb].
  destruct (Z.of_nat (List.length l) <=? Z.of_nat i) eqn:E.
  - assert (H : nth_error l i = None) by (apply nth_error_None; lia). rewrite H. reflexivity.
  - rewrite Nat2Z.id. destruct (nth_error l i) eqn:H; [reflexivity|]. apply nth_error_None in H. lia.
Qed.

Lemma list_get_sem ext fuel (l : list val) (i : nat) :
  sem_wallet_utils__list_get ext fuel [VList l; VInt (Z.of_nat i)]
  = Val (match nth_error l i with Some v => v | None => VNone end).
Proof.
  unfold sem_wallet_utils__list_get, call, ast_wallet_utils__list_get. pystep.
  rewrite index_nat. destruct (nth_error l i); reflexivity.
Qed.

Lemma _to_list_sem ext fuel a b c d e prv :
  sem_wallet_utils__Bip32Path___to_list ext fuel [vpath5 a b c d e prv] = Val (VList [vopt a; vopt b; vopt c; vopt d; vopt e]).
Proof. reflexivity. Qed.

Lemma to_list_sem ext fuel a b c d e prv :
  sem_wallet_utils__Bip32Path__to_list ext fuel [vpath5 a b c d e prv] = Val (VList (map VInt (somes [a; b; c; d; e]))).
Proof. destruct a, b, c, d, e; reflexivity. Qed.

Lemma m_sem ext fuel a b c d e prv :
  sem_wallet_utils__Bip32Path__m ext fuel [vpath5 a b c d e prv] = Val (VStr (if prv then [109] else [77])).
Proof. destruct prv; reflexivity. Qed.

Lemma str_of_nonneg_eq n : map (fun d => 48 + d) (digits_be 10 n) = str_of_nonneg n.
Proof.
  unfold digits_be, str_of_nonneg. destruct (n =? 0); [reflexivity|].
  apply map_ext. intros d. lia.
Qed.
Lemma str_of_int_eq n : Interp.str_of_int n = WalletUtils.str_of_int n.
Proof. unfold Interp.str_of_int, WalletUtils.str_of_int. rewrite !str_of_nonneg_eq. reflexivity. Qed.

Lemma repr_hardened_sem ext fuel self n :
  sem_wallet_utils__Bip32Path__repr_hardened ext fuel [self; VInt n] = Val (VStr (repr_hardened n)).
Proof.
  unfold sem_wallet_utils__Bip32Path__repr_hardened, call, ast_wallet_utils__Bip32Path__repr_hardened, repr_hardened. pystep.
  change (2 ^ 31) with 2147483648. replace (n >=? 2147483648) with (2147483648 <=? n) by lia.
  destruct (2147483648 <=? n); pystep; rewrite str_of_int_eq; reflexivity.
Qed.

(* integrity_check and the constructor on slots that hold ints or None *)
Lemma integrity_check_sem ext fuel a b c d e prv :
  sem_wallet_utils__Bip32Path__integrity_check ext fuel [vpath5 a b c d e prv]
  = if integrity [a; b; c; d; e] false then Val VNone else Exc RuntimeError.
Proof. destruct a, b, c, d, e; reflexivity. Qed.

Lemma init_sem ext fuel a b c d e prv :
  sem_wallet_utils__Bip32Path____init__ ext fuel [vopt a; vopt b; vopt c; vopt d; vopt e; VBool prv]
  = if integrity [a; b; c; d; e] false then Val (vpath5 a b c d e prv) else Exc RuntimeError.
Proof. destruct a, b, c, d, e; reflexivity. Qed.

#[global] Arguments sem_wallet_utils__Bip32Path__to_list : simpl never.
#[global] Arguments sem_wallet_utils__Bip32Path__repr_hardened : simpl never.
#[global] Arguments sem_wallet_utils__Bip32Path__m : simpl never.
#[global] Arguments sem_wallet_utils__Bip32Path____init__ : simpl never.
#[global] Arguments sem_wallet_utils__list_get : simpl never.
#[global] Arguments vpath5 : simpl never.

Lemma all_strs_map {A} (f : A -> list Z) l : all_strs (map (fun x => VStr (f x)) l) = Some (map f l).
Proof. induction l as [|x r IH]; [reflexivity|]. cbn [map all_strs fold_right]. fold (all_strs (map (fun x => VStr (f x)) r)). rewrite IH. reflexivity. Qed.

Lemma join_slash_concat items : List.concat (map (fun x : list Z => [47] ++ x) items) = join_slash items.
Proof. induction items as [|x r IH]; [reflexivity|]. cbn [map List.concat join_slash]. rewrite IH. reflexivity. Qed.

Lemma repr_sem ext fuel a b c d e prv :
  sem_wallet_utils__Bip32Path____repr__ ext fuel [vpath5 a b c d e prv]
  = Val (VStr (path_repr {| bp_items := [a; b; c; d; e]; bp_private := prv |})).
Proof.
  unfold sem_wallet_utils__Bip32Path____repr__, call, ast_wallet_utils__Bip32Path____repr__. pystep.
  rewrite to_list_sem. pystep.
  set (l := somes [a; b; c; d; e]).
  rewrite (comp_map_map _ VInt (fun n => VStr (repr_hardened n))) by (intros n; pystep; rewrite repr_hardened_sem; reflexivity).
  pystep. rewrite m_sem. pystep.
  rewrite (all_strs_map repr_hardened). pystep.
  unfold path_repr, to_list. cbn [bp_items bp_private]. fold l. rewrite join_slash_concat. reflexivity.
Qed.

(* ---- parse ---- *)
Lemma split_on_eq c s : forall cur, Interp.split_on c s cur = WalletUtils.split_on c s cur.
Proof. induction s as [|x r IH]; intros cur; cbn [Interp.split_on WalletUtils.split_on]; [reflexivity|]. rewrite !IH. reflexivity. Qed.

Lemma ascii_rev s : ascii (rev s) = ascii s.
Proof.
  unfold ascii. induction s as [|x r IH]; [reflexivity|]. cbn [rev forallb]. rewrite forallb_app, IH. cbn [forallb].
  rewrite andb_true_r. apply andb_comm.
Qed.
Lemma split_on_ascii s : forall cur, ascii s = true -> ascii cur = true ->
  Forall (fun t => ascii t = true) (WalletUtils.split_on 47 s cur).
Proof.
  induction s as [|x r IH]; intros cur Hs Hc; cbn [WalletUtils.split_on].
  - constructor; [rewrite ascii_rev; exact Hc|constructor].
  - unfold ascii in Hs. cbn [forallb] in Hs. apply andb_true_iff in Hs as [Hx Hr].
    destruct (x =? 47).
    + constructor; [rewrite ascii_rev; exact Hc|]. apply IH; [exact Hr|reflexivity].
    + apply IH; [exact Hr|]. unfold ascii. cbn [forallb]. rewrite Hx. exact Hc.
Qed.

(* one slot: list_get, the truthiness test and convert_hardened *)
Definition slot_val (l : list str) (i : nat) : val :=
  match nth_error (map VStr l) i with Some v => v | None => VNone end.
Lemma slot_sem ext fuel l i :
  Forall (fun t => ascii t = true) l ->
  (if truthy (slot_val l i) then sem_wallet_utils__Bip32Path__convert_hardened ext fuel [slot_val l i] else Val VNone)
  = match slot l i with Ok o => Val (vopt o) | Err => Exc ValueError end.
Proof.
  intros Ha. unfold slot_val, slot, str in *. rewrite nth_error_map.
  destruct (nth_error l i) as [t|] eqn:E; cbn [option_map]; [|reflexivity].
  assert (Ht : ascii t = true) by (rewrite Forall_forall in Ha; apply Ha; eapply nth_error_In; exact E).
  destruct t as [|c r]; [reflexivity|].
  cbn [truthy]. rewrite convert_hardened_sem by exact Ht.
  destruct (convert_hardened (c :: r)); reflexivity.
Qed.

#[global] Arguments slot_val : simpl never.
Lemma list_get_slot ext fuel l z : 0 <= z ->
  sem_wallet_utils__list_get ext fuel [VList (map VStr l); VInt z] = Val (slot_val l (Z.to_nat z)).
Proof. intros Hz. rewrite <- (Z2Nat.id z) at 1 by exact Hz. rewrite list_get_sem. reflexivity. Qed.

Definition vpath (p : bpath) : val :=
  match bp_items p with [a; b; c; d; e] => vpath5 a b c d e (bp_private p) | _ => VNone end.

#[local] Arguments integrity : simpl never.
Lemma parse_sem ext fuel s :
  ascii s = true ->
  agrees (sem_wallet_utils__Bip32Path__parse ext fuel [VStr s]) (rmap vpath (path_parse s)).
Proof.
  intros Ha.
  unfold sem_wallet_utils__Bip32Path__parse, call, ast_wallet_utils__Bip32Path__parse, path_parse, split_slash.
  pystep. rewrite split_on_eq.
  assert (Hl := split_on_ascii s [] Ha eq_refl).
  destruct (WalletUtils.split_on 47 s []) as [|first rest] eqn:Es.
  { exfalso. exact (split_slash_nonempty s Es). }
  pystep.
  destruct (beq_bytes first [109] || (beq_bytes first [77] || false)) eqn:Em.
  2:{ rewrite orb_false_r in Em. rewrite Em. pystep. exists ValueError. split; [reflexivity|split; discriminate]. }
  rewrite orb_false_r in Em. rewrite Em.
  change (VStr first :: map VStr rest) with (map VStr (first :: rest)).
  set (prv := beq_bytes first [109]).
  remember (first :: rest) as l eqn:El. clear Es.
  pystep. do 5 (rewrite list_get_slot by lia; pystep).
  rewrite !(slot_sem ext fuel l) by exact Hl.
  unfold str in *.
  destruct (slot l 1) as [a|]; [|exists ValueError; split; [reflexivity|split; discriminate]].
  destruct (slot l 2) as [b|]; [|exists ValueError; split; [reflexivity|split; discriminate]].
  destruct (slot l 3) as [c|]; [|exists ValueError; split; [reflexivity|split; discriminate]].
  destruct (slot l 4) as [d|]; [|exists ValueError; split; [reflexivity|split; discriminate]].
  destruct (slot l 5) as [e|]; [|exists ValueError; split; [reflexivity|split; discriminate]].
  pystep. replace (index (map VStr l) 0) with (Val (VStr first)) by (rewrite El; reflexivity).
  pystep. fold prv. rewrite init_sem.
  destruct (integrity [a; b; c; d; e] false); cbn [rmap agrees vpath bp_items bp_private].
  - destruct prv; reflexivity.
  - exists RuntimeError. split; [reflexivity|split; discriminate].
Qed.

(* ---- what __repr__ prints is ASCII, so parse_sem applies to it ---- *)
Lemma ascii_Forall s : Forall (fun c => 0 <= c < 128) s -> ascii s = true.
Proof.
  intros H. unfold ascii. apply forallb_forall. rewrite Forall_forall in H. intros c Hc. specialize (H c Hc). lia.
Qed.
Lemma repr_hardened_ascii v : 0 <= v < 4294967296 -> Forall (fun c => 0 <= c < 128) (repr_hardened v).
Proof.
  intros Hv.
  assert (Hd : forall n, 0 <= n -> Forall (fun c => 0 <= c < 128) (WalletUtils.str_of_int n)).
  { intros n Hn. unfold WalletUtils.str_of_int. destruct (n <? 0) eqn:E; [lia|].
    destruct (str_of_nonneg_digits n Hn) as [Hf _]. eapply Forall_impl; [|exact Hf]. unfold dig. intros c Hc. cbv beta in Hc. lia. }
  unfold repr_hardened. destruct (2147483648 <=? v) eqn:E.
  - apply Forall_app. split; [apply Hd; lia|]. constructor; [lia|constructor].
  - apply Hd. lia.
Qed.
Lemma join_slash_ascii items : Forall (fun x => Forall (fun c => 0 <= c < 128) x) items ->
  Forall (fun c => 0 <= c < 128) (join_slash items).
Proof.
  induction 1 as [|x r Hx Hr IH]; cbn [join_slash]; [constructor|].
  constructor; [lia|]. apply Forall_app. split; assumption.
Qed.
Lemma path_repr_ascii private l :
  Forall (fun i => 0 <= i < 4294967296) l -> ascii (path_repr (path_of_list private l)) = true.
Proof.
  intros Hr. apply ascii_Forall. unfold path_repr, to_list, path_of_list. cbn [bp_items bp_private].
  rewrite somes_path_of_list. apply Forall_app. split.
  - destruct private; (constructor; [lia|constructor]).
  - apply join_slash_ascii. apply Forall_map. eapply Forall_impl; [|exact Hr]. intros i Hi. apply repr_hardened_ascii. exact Hi.
Qed.

Lemma vpath_of_list private l : (List.length l <= 5)%nat ->
  exists a b c d e, path_of_list private l = {| bp_items := [a; b; c; d; e]; bp_private := private |} /\ somes [a; b; c; d; e] = l.
Proof.
  intros Hl. destruct l as [|a [|b [|c [|d [|e [|f r]]]]]]; unfold path_of_list; cbn [map List.length Nat.sub repeat app];
    [do 5 eexists; split; reflexivity ..|cbn [List.length] in Hl; lia].
Qed.

(* formatting and re-parsing at the level of the source: for every index list of at most five levels the source of
   __repr__ prints the model's string, the source of parse maps that string back to the same object, and the source of
   to_list returns the index list *)
Theorem source_format_parse_id ext fuel private l :
  (List.length l <= 5)%nat -> Forall (fun i => 0 <= i < 4294967296) l ->
  let obj := vpath (path_of_list private l) in
  sem_wallet_utils__Bip32Path____repr__ ext fuel [obj] = Val (VStr (path_repr (path_of_list private l))) /\
  sem_wallet_utils__Bip32Path__parse ext fuel [VStr (path_repr (path_of_list private l))] = Val obj /\
  sem_wallet_utils__Bip32Path__to_list ext fuel [obj] = Val (VList (map VInt l)).
Proof.
  intros Hl Hr obj.
  assert (P := parse_sem ext fuel _ (path_repr_ascii private l Hr)).
  rewrite (format_parse_id private l Hl Hr) in P. cbn [rmap agrees] in P.
  destruct (vpath_of_list private l Hl) as (a & b & c & d & e & E & Es).
  unfold obj in *. rewrite E in *. unfold vpath in *. cbn [bp_items bp_private] in *.
  split; [apply repr_sem|]. split; [exact P|]. rewrite to_list_sem, Es. reflexivity.
Qed.
