(* Source semantics of ripemd.py (regenerated terms: fi, rol, compress) = Model/Ripemd.v. *)
From BHW Require Import Lib.Base Lib.Digits Lib.ListAux Model.Helper Model.Ripemd Py.Interp Py.Tactics.
From BHWGen Require Import RipemdTables PyAst.
Open Scope string_scope.
Open Scope Z_scope.
Open Scope list_scope.

Lemma lnot_py x : - x - 1 = Z.lnot x.
Proof. unfold Z.lnot. lia. Qed.

Lemma fi_sem ext fuel x y z i : 0 <= i <= 4 ->
  sem_ripemd__fi ext fuel [VInt x; VInt y; VInt z; VInt i] = Val (VInt (fi x y z i)).
Proof.
  intros Hi. unfold sem_ripemd__fi, call, ast_ripemd__fi, fi. pystep.
  destruct (i =? 0) eqn:E0; pystep; [reflexivity|].
  destruct (i =? 1) eqn:E1; pystep; [rewrite lnot_py; reflexivity|].
  destruct (i =? 2) eqn:E2; pystep; [rewrite lnot_py; reflexivity|].
  destruct (i =? 3) eqn:E3; pystep; [rewrite lnot_py; reflexivity|].
  replace (i =? 4) with true by lia. pystep. rewrite lnot_py. reflexivity.
Qed.
#[global] Arguments sem_ripemd__fi : simpl never.

Lemma rol_sem ext fuel x i : 0 <= i <= 32 ->
  sem_ripemd__rol ext fuel [VInt x; VInt i] = Val (VInt (rol x i)).
Proof.
  intros Hi. unfold sem_ripemd__rol, call, ast_ripemd__rol, rol. pystep.
  replace (i <? 0) with false by lia. pystep. replace (32 - i <? 0) with false by lia. reflexivity.
Qed.
#[global] Arguments sem_ripemd__rol : simpl never.

(* ---- tables ---- *)
Lemma g_ML : g_ripemd__ML = VList (map VInt ML). Proof. reflexivity. Qed.
Lemma g_MR : g_ripemd__MR = VList (map VInt MR). Proof. reflexivity. Qed.
Lemma g_RL : g_ripemd__RL = VList (map VInt RL). Proof. reflexivity. Qed.
Lemma g_RR : g_ripemd__RR = VList (map VInt RR). Proof. reflexivity. Qed.
#[global] Opaque g_ripemd__ML g_ripemd__MR g_ripemd__RL g_ripemd__RR.

Lemma tables_ok :
  List.length ML = 80%nat /\ List.length MR = 80%nat /\ List.length RL = 80%nat /\ List.length RR = 80%nat /\
  List.length KL = 5%nat /\ List.length KR = 5%nat /\
  Forall (fun v => 0 <= v < 16) ML /\ Forall (fun v => 0 <= v < 16) MR /\
  Forall (fun v => 0 <= v <= 32) RL /\ Forall (fun v => 0 <= v <= 32) RR.
Proof.
  repeat split; try reflexivity.
  all: apply Forall_forall; intros v Hv;
    match goal with H : In v ?t |- _ =>
      assert (G : forallb (fun v => (0 <=? v) && (v <=? 32)) t = true) by (vm_compute; reflexivity) end.
  all: try (assert (G16 : forallb (fun v => (0 <=? v) && (v <? 16)) ML = true /\ forallb (fun v => (0 <=? v) && (v <? 16)) MR = true)
              by (split; vm_compute; reflexivity)).
  - destruct G16 as [G1 _]. rewrite forallb_forall in G1. specialize (G1 v Hv). lia.
  - destruct G16 as [_ G2]. rewrite forallb_forall in G2. specialize (G2 v Hv). lia.
  - rewrite forallb_forall in G. specialize (G v Hv). lia.
  - rewrite forallb_forall in G. specialize (G v Hv). lia.
Qed.

Lemma index_tab (t : list Z) k : (k < List.length t)%nat -> index (map VInt t) (Z.of_nat k) = Val (VInt (tab t k)).
Proof.
  intros H. unfold index, tab. rewrite map_length.
  replace (Z.of_nat k <? 0) with false by lia.
  replace ((Z.of_nat k <? 0) || (Z.of_nat (List.length t) <=? Z.of_nat k)) with false by lia.
  rewrite Nat2Z.id, nth_error_map, (nth_error_nth' t 0 H). reflexivity.
Qed.

Lemma index_tabZ (t : list Z) i : 0 <= i < Z.of_nat (List.length t) -> index (map VInt t) i = Val (VInt (tab t (Z.to_nat i))).
Proof. intros H. rewrite <- (Z2Nat.id i) at 1 by lia. apply index_tab. lia. Qed.

Lemma tab_in (t : list Z) k : (k < List.length t)%nat -> In (tab t k) t.
Proof. intros H. unfold tab. apply nth_In. exact H. Qed.

Lemma shr4 k : Z.shiftr (Z.of_nat k) 4 = Z.of_nat (k / 16).
Proof. rewrite Z.shiftr_div_pow2 by lia. change (2 ^ 4) with 16. rewrite Nat2Z.inj_div. reflexivity. Qed.

(* ---- slices and message words ---- *)
Lemma slice_range {X} (l : list X) lo hi : 0 <= lo <= hi ->
  slice l (Some lo) (Some hi) = firstn (Z.to_nat (hi - lo)) (skipn (Z.to_nat lo) l).
Proof.
  intros H. unfold slice, norm_idx. replace (lo <? 0) with false by lia. replace (hi <? 0) with false by lia.
  set (len := Z.of_nat (List.length l)).
  destruct (Z_le_gt_dec lo len) as [L1|L1].
  - rewrite (Z.min_l lo len) by lia.
    destruct (Z_le_gt_dec hi len) as [L2|L2].
    + rewrite (Z.min_l hi len) by lia. reflexivity.
    + rewrite (Z.min_r hi len) by lia.
      rewrite !firstn_all2; [reflexivity| |]; rewrite skipn_length; unfold len in *; lia.
  - rewrite (Z.min_r lo len), (Z.min_r hi len) by lia.
    rewrite !skipn_all2 by (unfold len in *; lia). rewrite !firstn_nil. reflexivity.
Qed.

Lemma words16 block :
  words_le 16 block = map (fun i => le2z (firstn 4 (skipn (4 * i) block))) (seq 0 16).
Proof. cbn [words_le seq map Nat.mul Nat.add]. rewrite !skipn_skipn. reflexivity. Qed.


Definition rc_env (h0 h1 h2 h3 h4 : Z) (block : option val) (s : st10) (xs : list Z) (j rnd : option val) : env :=
  [("h0", Some (VInt h0)); ("h1", Some (VInt h1)); ("h2", Some (VInt h2)); ("h3", Some (VInt h3)); ("h4", Some (VInt h4));
   ("block", block);
   ("al", Some (VInt (al s))); ("bl", Some (VInt (bl s))); ("cl", Some (VInt (cl s))); ("dl", Some (VInt (dl s))); ("el", Some (VInt (el s)));
   ("ar", Some (VInt (ar s))); ("br", Some (VInt (br s))); ("cr", Some (VInt (cr s))); ("dr", Some (VInt (dr s))); ("er", Some (VInt (er s)));
   ("x", Some (VList (map VInt xs))); ("j", j); ("rnd", rnd)].

Lemma words_le_length n b : List.length (words_le n b) = n.
Proof. revert b; induction n; intros b; cbn [words_le List.length]; [reflexivity|]. rewrite IHn. reflexivity. Qed.

Lemma for_loop_nil body e : for_loop body [] e = SNormal e.
Proof. reflexivity. Qed.
Lemma for_loop_cons body v r e : for_loop body (v :: r) e = match body v e with SNormal e' => for_loop body r e' | SBrk e' => SNormal e' | o => o end.
Proof. reflexivity. Qed.

#[local] Opaque ML MR RL RR KL KR.
#[local] Arguments Nat.div : simpl never.
#[local] Arguments for_loop : simpl never.
#[local] Arguments round : simpl never.
#[local] Arguments words_le : simpl never.

Lemma compress_sem ext fuel h0 h1 h2 h3 h4 block :
  sem_ripemd__compress ext fuel [VInt h0; VInt h1; VInt h2; VInt h3; VInt h4; VBytes block]
  = Val (let '(a, b, c, d, e) := compress (h0, h1, h2, h3, h4) block in VTuple [VInt a; VInt b; VInt c; VInt d; VInt e]).
Proof.
  destruct tables_ok as (LML & LMR & LRL & LRR & LKL & LKR & BML & BMR & BRL & BRR).
  unfold sem_ripemd__compress, call, ast_ripemd__compress.
  pystep.
  (* the sixteen message words *)
  repeat match goal with |- context [slice block (Some ?a) (Some ?b)] => rewrite (slice_range block a b) by lia end.
  cbn [Z.sub Z.to_nat Pos.to_nat Pos.iter_op Nat.add Z.pos_sub Z.opp Pos.pred_double].
  match goal with |- context [("x", Some (VList ?l))] =>
    replace l with (map VInt (words_le 16 block)) by (rewrite words16; reflexivity) end.
  set (xs := words_le 16 block).
  assert (Lxs : List.length xs = 16%nat) by apply words_le_length.
  match goal with |- context [for_loop ?b ?items _] => set (body := b); set (its := items) end.
  assert (Hits : its = map (fun k => VInt (Z.of_nat k)) (seq 0 80)) by reflexivity.
  set (s0 := {| al := h0; bl := h1; cl := h2; dl := h3; el := h4; ar := h0; br := h1; cr := h2; dr := h3; er := h4 |}).
  change (for_loop body its _) with (for_loop body its (rc_env h0 h1 h2 h3 h4 (Some (VBytes block)) s0 xs None None)).
  assert (Hb : forall s k j rnd, (k < 80)%nat ->
     body (VInt (Z.of_nat k)) (rc_env h0 h1 h2 h3 h4 (Some (VBytes block)) s xs j rnd)
     = SNormal (rc_env h0 h1 h2 h3 h4 (Some (VBytes block)) (round xs s k) xs (Some (VInt (Z.of_nat k))) (Some (VInt (Z.of_nat (k / 16)))))).
  { intros s k j rnd Hk.
    assert (Hr : (k / 16 < 5)%nat) by (apply Nat.div_lt_upper_bound; lia).
    assert (HML : 0 <= tab ML k < 16) by (rewrite Forall_forall in BML; apply BML, tab_in; lia).
    assert (HMR : 0 <= tab MR k < 16) by (rewrite Forall_forall in BMR; apply BMR, tab_in; lia).
    assert (HRL : 0 <= tab RL k <= 32) by (rewrite Forall_forall in BRL; apply BRL, tab_in; lia).
    assert (HRR : 0 <= tab RR k <= 32) by (rewrite Forall_forall in BRR; apply BRR, tab_in; lia).
    unfold body, rc_env. pystep. rewrite !shr4.
    rewrite fi_sem by lia. pystep.
    rewrite g_ML. pystep. rewrite (index_tab ML k) by lia. pystep.
    rewrite (index_tabZ xs (tab ML k)) by lia. pystep.
    change [VInt 0; VInt 1518500249; VInt 1859775393; VInt 2400959708; VInt 2840853838] with (map VInt KL).
    rewrite (index_tab KL (k / 16)) by lia. pystep.
    rewrite g_RL. pystep. rewrite (index_tab RL k) by lia. pystep.
    rewrite rol_sem by lia. pystep. rewrite rol_sem by lia. pystep.
    rewrite fi_sem by lia. pystep.
    rewrite g_MR. pystep. rewrite (index_tab MR k) by lia. pystep.
    rewrite (index_tabZ xs (tab MR k)) by lia. pystep.
    change [VInt 1352829926; VInt 1548603684; VInt 1836072691; VInt 2053994217; VInt 0] with (map VInt KR).
    rewrite (index_tab KR (k / 16)) by lia. pystep.
    rewrite g_RR. pystep. rewrite (index_tab RR k) by lia. pystep.
    rewrite rol_sem by lia. pystep. rewrite rol_sem by lia. pystep.
    reflexivity. }
  clearbody body.
  assert (HL : forall l s j rnd, Forall (fun k => (k < 80)%nat) l -> exists j' rnd',
     for_loop body (map (fun k => VInt (Z.of_nat k)) l) (rc_env h0 h1 h2 h3 h4 (Some (VBytes block)) s xs j rnd)
     = SNormal (rc_env h0 h1 h2 h3 h4 (Some (VBytes block)) (fold_left (round xs) l s) xs j' rnd')).
  { induction l as [|k l IH]; intros s j rnd Hl.
    - exists j, rnd. rewrite for_loop_nil. reflexivity.
    - inversion Hl as [|? ? Hk Hl']; subst. cbn [map]. rewrite for_loop_cons, (Hb s k j rnd Hk).
      destruct (IH (round xs s k) (Some (VInt (Z.of_nat k))) (Some (VInt (Z.of_nat (k / 16)))) Hl') as (j' & rnd' & E).
      exists j', rnd'. rewrite E. reflexivity. }
  assert (Hseq : Forall (fun k => (k < 80)%nat) (seq 0 80)) by (apply Forall_forall; intros k Hk; apply in_seq in Hk; lia).
  destruct (HL (seq 0 80) s0 None None Hseq) as (j' & rnd' & E).
  rewrite Hits, E. unfold rc_env. pystep.
  unfold compress. fold xs. fold s0. reflexivity.
Qed.
#[global] Arguments sem_ripemd__compress : simpl never.

(* ---- ripemd160 ---- *)
Lemma concat_repeat1 {X} (x : X) n : List.concat (repeat [x] n) = repeat x n.
Proof. induction n; cbn; [reflexivity|]. rewrite IHn. reflexivity. Qed.

Definition vstate (s : state) : val := let '(a, b, c, d, e) := s in VTuple [VInt a; VInt b; VInt c; VInt d; VInt e].

Lemma blocks_map n : forall data off,
  blocks n (skipn off data) = map (fun k => firstn 64 (skipn (off + 64 * k) data)) (seq 0 n).
Proof.
  induction n as [|n IH]; intros data off; [reflexivity|].
  cbn [blocks seq map]. rewrite Nat.mul_0_r, Nat.add_0_r. f_equal.
  rewrite skipn_skipn. rewrite (IH data (64 + off)%nat). rewrite <- seq_shift, map_map.
  apply map_ext. intros k. do 2 f_equal. lia.
Qed.

Lemma range_items n : 0 <= n -> range_list 0 n 1 = Val (map (fun k => VInt (Z.of_nat k)) (seq 0 (Z.to_nat n))).
Proof.
  intros Hn. unfold range_list. change (1 =? 0) with false. change (0 <? 1) with true. cbn [negb].
  destruct (0 <? n) eqn:E.
  - rewrite Z.sub_0_r. replace ((n + 1 - 1) / 1) with n by (rewrite Z.div_1_r; lia).
    f_equal. apply map_ext. intros k. f_equal. lia.
  - assert (n = 0) by lia. subst. reflexivity.
Qed.

Lemma compress_call ext fuel s blk :
  sem_ripemd__compress ext fuel (match vstate s with VTuple l => l | _ => [] end ++ [VBytes blk]) = Val (vstate (compress s blk)).
Proof.
  destruct s as [[[[a b] c] d] e]. cbn [vstate app]. rewrite compress_sem.
  destruct (compress (a, b, c, d, e) blk) as [[[[a' b'] c'] d'] e']. reflexivity.
Qed.

Definition rm_env (data : list Z) (s : state) (b pad fin : option val) : env :=
  [("data", Some (VBytes data)); ("state", Some (vstate s)); ("b", b); ("pad", pad); ("fin", fin)].

#[local] Arguments blocks : simpl never.
#[local] Arguments to_le_fixed : simpl never.
#[local] Arguments compress : simpl never.
#[local] Arguments vstate : simpl never.

Lemma land32_ok a : (Z.land a 4294967295 <? 0) || (256 ^ 4 <=? Z.land a 4294967295) = false.
Proof.
  change 4294967295 with (Z.ones 32). rewrite Z.land_ones by lia.
  pose proof (Z.mod_pos_bound a (2 ^ 32) ltac:(lia)) as H. change (256 ^ 4) with (2 ^ 32).
  apply orb_false_iff. split; [apply Z.ltb_ge|apply Z.leb_gt]; lia.
Qed.

Lemma ripemd160_sem ext fuel data :
  agrees (sem_ripemd__ripemd160 ext fuel [VBytes data]) (rmap VBytes (ripemd160 data)).
Proof.
  unfold sem_ripemd__ripemd160, call, ast_ripemd__ripemd160, ripemd160.
  change init_state with (Ok (A := state) (1732584193, 4023233417, 2562383102, 271733878, 3285377520)). cbn [bind].
  set (s0 := (1732584193, 4023233417, 2562383102, 271733878, 3285377520) : state).
  pystep.
  set (len := Z.of_nat (List.length data)).
  assert (Hlen : 0 <= len) by (unfold len; lia).
  rewrite (range_items (Z.shiftr len 6)) by (apply Z.shiftr_nonneg; exact Hlen). pystep.
  change (VTuple [VInt 1732584193; VInt 4023233417; VInt 2562383102; VInt 271733878; VInt 3285377520]) with (vstate s0).
  match goal with |- context [for_loop ?b _ _] => set (body1 := b) end.
  assert (Hs1 : forall s k bv pad fin,
     body1 (VInt (Z.of_nat k)) (rm_env data s bv pad fin)
     = SNormal (rm_env data (compress s (firstn 64 (skipn (64 * k) data))) (Some (VInt (Z.of_nat k))) pad fin)).
  { intros s k bv pad fin. unfold body1, rm_env. pystep.
    rewrite (slice_range data (64 * Z.of_nat k) (64 * (Z.of_nat k + 1))) by lia.
    replace (Z.to_nat (64 * (Z.of_nat k + 1) - 64 * Z.of_nat k)) with 64%nat by lia.
    replace (Z.to_nat (64 * Z.of_nat k)) with (64 * k)%nat by lia.
    destruct s as [[[[a b] c] d] e]. unfold vstate at 1. pystep.
    rewrite compress_sem. pystep.
    destruct (compress (a, b, c, d, e) (firstn 64 (skipn (64 * k) data))) as [[[[a' b'] c'] d'] e']. reflexivity. }
  clearbody body1.
  assert (H1 : forall l s bv pad fin, exists bv',
     for_loop body1 (map (fun k => VInt (Z.of_nat k)) l) (rm_env data s bv pad fin)
     = SNormal (rm_env data (fold_left compress (map (fun k => firstn 64 (skipn (64 * k) data)) l) s) bv' pad fin)).
  { induction l as [|k l IH]; intros s bv pad fin.
    - exists bv. rewrite for_loop_nil. reflexivity.
    - cbn [map]. rewrite for_loop_cons, Hs1.
      destruct (IH (compress s (firstn 64 (skipn (64 * k) data))) (Some (VInt (Z.of_nat k))) pad fin) as (bv' & E).
      rewrite E. exists bv'. reflexivity. }
  set (nb := Z.to_nat (Z.shiftr len 6)).
  destruct (H1 (seq 0 nb) s0 None None None) as (bv1 & E1). unfold rm_env in E1 at 1. rewrite E1. clear E1 H1 Hs1 body1.
  assert (Hb1 : map (fun k => firstn 64 (skipn (64 * k) data)) (seq 0 nb) = blocks nb data).
  { change data with (skipn 0 data) at 2. rewrite (blocks_map nb data 0). apply map_ext. intros k. reflexivity. }
  rewrite Hb1. set (s1 := fold_left compress (blocks nb data) s0).
  unfold rm_env. pystep. fold len.
  (* pad and fin *)
  assert (Hland : 0 <= Z.land len (-64)) by (apply Z.land_nonneg; left; exact Hlen).
  rewrite slice_from by exact Hland.
  unfold fin_of. fold len. change (Z.lnot 63) with (-64).
  unfold to_bytes_le, z2le. change (8 <? 0) with false. cbn [Z.to_nat Pos.to_nat Pos.iter_op Nat.add].
  change (Z.of_nat 8) with 8.
  destruct ((8 * len <? 0) || (256 ^ 8 <=? 8 * len)) eqn:Eov; pystep.
  { cbn [bind rmap agrees]. exists OverflowError. split; [reflexivity|split; discriminate]. }
  cbn [bind].
  rewrite concat_repeat1.
  set (fin := skipn (Z.to_nat (Z.land len (-64))) data ++ (128 :: repeat 0 (Z.to_nat (Z.land (119 - len) 63))) ++ to_le_fixed 256 8 (8 * len)).
  replace ((skipn (Z.to_nat (Z.land len (-64))) data ++ 128 :: repeat 0 (Z.to_nat (Z.land (119 - len) 63))) ++ to_le_fixed 256 8 (8 * len))
    with fin by (unfold fin; rewrite <- app_assoc; reflexivity).
  change (skipn (Z.to_nat (Z.land len (-64))) data ++ 128 :: repeat 0 (Z.to_nat (Z.land (119 - len) 63)) ++ to_le_fixed 256 8 (8 * len)) with fin.
  clearbody fin.
  set (lenf := Z.of_nat (List.length fin)).
  rewrite (range_items (Z.shiftr lenf 6)) by (apply Z.shiftr_nonneg; unfold lenf; lia). pystep.
  match goal with |- context [for_loop ?b _ ?e] => set (body2 := b); set (env2 := e) end.
  assert (Hs2 : forall s k bv pad,
     body2 (VInt (Z.of_nat k)) [("data", Some (VBytes data)); ("state", Some (vstate s)); ("b", bv); ("pad", pad); ("fin", Some (VBytes fin))]
     = SNormal [("data", Some (VBytes data)); ("state", Some (vstate (compress s (firstn 64 (skipn (64 * k) fin)))));
                ("b", Some (VInt (Z.of_nat k))); ("pad", pad); ("fin", Some (VBytes fin))]).
  { intros s k bv pad. unfold body2. pystep.
    rewrite (slice_range fin (64 * Z.of_nat k) (64 * (Z.of_nat k + 1))) by lia.
    replace (Z.to_nat (64 * (Z.of_nat k + 1) - 64 * Z.of_nat k)) with 64%nat by lia.
    replace (Z.to_nat (64 * Z.of_nat k)) with (64 * k)%nat by lia.
    destruct s as [[[[a b] c] d] e]. unfold vstate at 1. pystep.
    rewrite compress_sem. pystep.
    destruct (compress (a, b, c, d, e) (firstn 64 (skipn (64 * k) fin))) as [[[[a' b'] c'] d'] e']. reflexivity. }
  clearbody body2.
  assert (H2 : forall l s bv pad, exists bv',
     for_loop body2 (map (fun k => VInt (Z.of_nat k)) l) [("data", Some (VBytes data)); ("state", Some (vstate s)); ("b", bv); ("pad", pad); ("fin", Some (VBytes fin))]
     = SNormal [("data", Some (VBytes data)); ("state", Some (vstate (fold_left compress (map (fun k => firstn 64 (skipn (64 * k) fin)) l) s)));
                ("b", bv'); ("pad", pad); ("fin", Some (VBytes fin))]).
  { induction l as [|k l IH]; intros s bv pad.
    - exists bv. rewrite for_loop_nil. reflexivity.
    - cbn [map]. rewrite for_loop_cons, Hs2.
      destruct (IH (compress s (firstn 64 (skipn (64 * k) fin))) (Some (VInt (Z.of_nat k))) pad) as (bv' & E).
      rewrite E. exists bv'. reflexivity. }
  set (nf := Z.to_nat (Z.shiftr lenf 6)).
  unfold env2.
  match goal with |- context [("pad", ?p)] => destruct (H2 (seq 0 nf) s1 bv1 p) as (bv2 & E2) end.
  rewrite E2. clear E2 H2 Hs2.
  assert (Hb2 : map (fun k => firstn 64 (skipn (64 * k) fin)) (seq 0 nf) = blocks nf fin).
  { change fin with (skipn 0 fin) at 2. rewrite (blocks_map nf fin 0). apply map_ext. intros k. reflexivity. }
  rewrite Hb2. fold lenf. fold nf.
  destruct (fold_left compress (blocks nf fin) s1) as [[[[a b] c] d] e]. unfold vstate. pystep.
  unfold z2le. change (Z.of_nat 4) with 4. cbn [Z.to_nat Pos.to_nat Pos.iter_op Nat.add].
  rewrite !land32_ok. pystep. cbn [bind rmap agrees].
  rewrite app_nil_r. reflexivity.
Qed.
