(* Source semantics of ripemd.py (regenerated terms: fi, rol, compress) = Model/Ripemd.v. *)
From BHW Require Import Lib.Base Lib.Digits Lib.ListAux Model.Helper Model.Ripemd Py.Interp Py.Tactics.
From BHWGen Require Import RipemdTables PyAst.
Open Scope string_scope.
Open Scope Z_scope.
Open Scope list_scope.

Lemma lnot_py x : - x - 1 = Z.lnot x.
Proof. unfold Z.lnot. lia. Qed.

Lemma fi_sem ext fuel x y z i : 0 <= i <= 4 ->
  sem_ripemd__fi ext fuel [VInt x; VInt y; VInt z; VInt i] = Val (VInt (fi x y z i)).
Proof.
  intros Hi. unfold sem_ripemd__fi, call, ast_ripemd__fi, fi. pystep.
  destruct (i =? 0) eqn:E0; pystep; [reflexivity|].
  destruct (i =? 1) eqn:E1; pystep; [rewrite lnot_py; reflexivity|].
  destruct (i =? 2) eqn:E2; pystep; [rewrite lnot_py; reflexivity|].
  destruct (i =? 3) eqn:E3; pystep; [rewrite lnot_py; reflexivity|].
  replace (i =? 4) with true by lia. pystep. rewrite lnot_py. reflexivity.
Qed.
#[global] Arguments sem_ripemd__fi : simpl never.

Lemma rol_sem ext fuel x i : 0 <= i <= 32 ->
  sem_ripemd__rol ext fuel [VInt x; VInt i] = Val (VInt (rol x i)).
Proof.
  intros Hi. unfold sem_ripemd__rol, call, ast_ripemd__rol, rol. pystep.
  replace (i <? 0) with false by lia. pystep. replace (32 - i <? 0) with false by lia. reflexivity.
Qed.
#[global] Arguments sem_ripemd__rol : simpl never.

(* ---- tables ---- *)
Lemma g_ML : g_ripemd__ML = VList (map VInt ML). Proof. reflexivity. Qed.
Lemma g_MR : g_ripemd__MR = VList (map VInt MR). Proof. reflexivity. Qed.
Lemma g_RL : g_ripemd__RL = VList (map VInt RL). Proof. reflexivity. Qed.
Lemma g_RR : g_ripemd__RR = VList (map VInt RR). Proof. reflexivity. Qed.
#[global] Opaque g_ripemd__ML g_ripemd__MR g_ripemd__RL g_ripemd__RR.

Lemma tables_ok :
  List.length ML = 80%nat /\ List.length MR = 80%nat /\ List.length RL = 80%nat /\ List.length RR = 80%nat /\
  List.length KL = 5%nat /\ List.length KR = 5%nat /\
  Forall (fun v => 0 <= v < 16) ML /\ Forall (fun v => 0 <= v < 16) MR /\
  Forall (fun v => 0 <= v <= 32) RL /\ Forall (fun v => 0 <= v <= 32) RR.
Proof.
  repeat split; try reflexivity.
  all: apply Forall_forall; intros v Hv;
    match goal with H : In v ?t |- _ =>
      assert (G : forallb (fun v => (0 <=? v) && (v <=? 32)) t = true) by (vm_compute; reflexivity) end.
  all: try (assert (G16 : forallb (fun v => (0 <=? v) && (v <? 16)) ML = true /\ forallb (fun v => (0 <=? v) && (v <? 16)) MR = true)
              by (split; vm_compute; reflexivity)).
  - destruct G16 as [G1 _]. rewrite forallb_forall in G1. specialize (G1 v Hv). lia.
  - destruct G16 as [_ G2]. rewrite forallb_forall in G2. specialize (G2 v Hv). lia.
  - rewrite forallb_forall in G. specialize (G v Hv). lia.
  - rewrite forallb_forall in G. specialize (G v Hv). lia.
Qed.

Lemma index_tab (t : list Z) k : (k < List.length t)%nat -> index (map VInt t) (Z.of_nat k) = Val (VInt (tab t k)).
Proof.
  intros H. unfold index, tab. rewrite map_length.
  replace (Z.of_nat k <? 0) with false by lia.
  replace ((Z.of_nat k <? 0) || (Z.of_nat (List.length t) <=? Z.of_nat k)) with false by lia.
  rewrite Nat2Z.id, nth_error_map, (nth_error_nth' t 0 H). reflexivity.
Qed.

Lemma index_tabZ (t : list Z) i : 0 <= i < Z.of_nat (List.length t) -> index (map VInt t) i = Val (VInt (tab t (Z.to_nat i))).
Proof. intros H. rewrite <- (Z2Nat.id i) at 1 by lia. apply index_tab. lia. Qed.

Lemma tab_in (t : list Z) k : (k < List.length t)%nat -> In (tab t k) t.
Proof. intros H. unfold tab. apply nth_In. exact H. Qed.

Lemma shr4 k : Z.shiftr (Z.of_nat k) 4 = Z.of_nat (k / 16).
Proof. rewrite Z.shiftr_div_pow2 by lia. change (2 ^ 4) with 16. rewrite Nat2Z.inj_div. reflexivity. Qed.

(* ---- slices and message words ---- *)
Lemma slice_range {X} (l : list X) lo hi : 0 <= lo <= hi ->
  slice l (Some lo) (Some hi) = firstn (Z.to_nat (hi - lo)) (skipn (Z.to_nat lo) l).
Proof.
  intros H. unfold slice, norm_idx. replace (lo <? 0) with false by lia. replace (hi <? 0) with false by lia.
  set (len := Z.of_nat (List.length l)).
  destruct (Z_le_gt_dec lo len) as [L1|L1].
  - rewrite (Z.min_l lo len) by lia.
    destruct (Z_le_gt_dec hi len) as [L2|L2].
    + rewrite (Z.min_l hi len) by lia. reflexivity.
    + rewrite (Z.min_r hi len) by lia.
      rewrite !firstn_all2; [reflexivity| |]; rewrite skipn_length; unfold len in *; lia.
  - rewrite (Z.min_r lo len), (Z.min_r hi len) by lia.
    rewrite !skipn_all2 by (unfold len in *; lia). rewrite !firstn_nil. reflexivity.
Qed.

Lemma words16 block :
  words_le 16 block = map (fun i => le2z (firstn 4 (skipn (4 * i) block))) (seq 0 16).
Proof. cbn [words_le seq map Nat.mul Nat.add]. rewrite !skipn_skipn. reflexivity. Qed.

