(* Base definitions shared by every model: result type, bytes as lists of Z,
   Python-style slicing helpers.  Stdlib only. *)
From Coq Require Export ZArith List Bool Lia ZifyBool.
Export ListNotations.
Open Scope Z_scope.

Ltac Zify.zify_post_hook ::= Z.to_euclidean_division_equations.

(* ---- errors are values ---- *)
Inductive res (A : Type) : Type :=
| Ok (a : A)
| Err.
Arguments Ok {A} a.
Arguments Err {A}.

Definition bind {A B} (r : res A) (f : A -> res B) : res B :=
  match r with Ok a => f a | Err => Err end.
Definition rmap {A B} (f : A -> B) (r : res A) : res B :=
  match r with Ok a => Ok (f a) | Err => Err end.
Notation "'do' x <- r ; k" := (bind r (fun x => k))
  (at level 200, x pattern, r at level 100, k at level 200).
Definition is_ok {A} (r : res A) : bool := match r with Ok _ => true | Err => false end.
Definition of_option {A} (o : option A) : res A :=
  match o with Some a => Ok a | None => Err end.

(* ---- bytes ---- *)
Definition bytes := list Z.
Definition byte_ok (x : Z) : Prop := 0 <= x < 256.
Definition wf_bytes (bs : bytes) : Prop := Forall byte_ok bs.
Definition byte_okb (x : Z) : bool := (0 <=? x) && (x <? 256).
Definition wf_bytesb (bs : bytes) : bool := forallb byte_okb bs.

Lemma wf_bytesb_spec bs : wf_bytesb bs = true <-> wf_bytes bs.
Proof.
  unfold wf_bytesb, wf_bytes. rewrite forallb_forall, Forall_forall.
  split; intros H x Hx; specialize (H x Hx); unfold byte_okb, byte_ok in *; lia.
Qed.

Lemma wf_app a b : wf_bytes (a ++ b) <-> wf_bytes a /\ wf_bytes b.
Proof. unfold wf_bytes. apply Forall_app. Qed.

Definition zeros (n : nat) : bytes := repeat 0 n.

Lemma wf_zeros n : wf_bytes (zeros n).
Proof. unfold wf_bytes, zeros. induction n; simpl; constructor; auto. unfold byte_ok; lia. Qed.

(* list equality on Z *)
Fixpoint beq_bytes (a b : list Z) : bool :=
  match a, b with
  | [], [] => true
  | x :: a', y :: b' => (x =? y) && beq_bytes a' b'
  | _, _ => false
  end.

Lemma beq_bytes_spec a b : beq_bytes a b = true <-> a = b.
Proof.
  revert b; induction a as [|x a IH]; intros [|y b]; simpl; split; intros H;
    try congruence; try discriminate.
  - apply andb_true_iff in H as [H1 H2]. apply IH in H2. subst. f_equal. lia.
  - inversion H; subst. rewrite Z.eqb_refl. simpl. apply IH. reflexivity.
Qed.

Lemma beq_bytes_refl a : beq_bytes a a = true.
Proof. apply beq_bytes_spec; reflexivity. Qed.

(* ---- Python slicing on lists (non-negative indices and the s[-k:] / s[:-k] forms) ---- *)
Definition take {A} (n : nat) (l : list A) : list A := firstn n l.
Definition drop {A} (n : nat) (l : list A) : list A := skipn n l.
(* l[:-k] *)
Definition drop_last {A} (k : nat) (l : list A) : list A := firstn (length l - k) l.
(* l[-k:] *)
Definition take_last {A} (k : nat) (l : list A) : list A := skipn (length l - k) l.

Lemma drop_last_take_last {A} k (l : list A) : drop_last k l ++ take_last k l = l.
Proof. unfold drop_last, take_last. apply firstn_skipn. Qed.

Lemma drop_last_app {A} (a b : list A) : drop_last (length b) (a ++ b) = a.
Proof.
  unfold drop_last. rewrite app_length.
  replace (length a + length b - length b)%nat with (length a) by lia.
  rewrite firstn_app, Nat.sub_diag, firstn_all. simpl. apply app_nil_r.
Qed.

Lemma take_last_app {A} (a b : list A) : take_last (length b) (a ++ b) = b.
Proof.
  unfold take_last. rewrite app_length.
  replace (length a + length b - length b)%nat with (length a) by lia.
  rewrite skipn_app, Nat.sub_diag, skipn_all. reflexivity.
Qed.

Lemma Forall_firstn {A} (P : A -> Prop) n l : Forall P l -> Forall P (firstn n l).
Proof.
  revert l; induction n; intros [|x l] H; simpl; auto. inversion H; subst. constructor; auto.
Qed.
Lemma Forall_skipn {A} (P : A -> Prop) n l : Forall P l -> Forall P (skipn n l).
Proof.
  revert l; induction n; intros [|x l] H; simpl; auto. inversion H; subst. auto.
Qed.

Lemma repeat_app_one {A} (x : A) n : repeat x n ++ [x] = x :: repeat x n.
Proof. induction n; simpl; congruence. Qed.

Lemma rev_repeat {A} (x : A) n : rev (repeat x n) = repeat x n.
Proof. induction n; simpl; auto. rewrite IHn. apply repeat_app_one. Qed.

Lemma skipn_skipn {A} x y (l : list A) : skipn x (skipn y l) = skipn (x + y) l.
Proof.
  revert l; induction y as [|y IH]; intros l.
  - rewrite Nat.add_0_r. reflexivity.
  - destruct l as [|a l]; [rewrite !skipn_nil; reflexivity|].
    rewrite Nat.add_succ_r. cbn [skipn]. apply IH.
Qed.

Lemma drop_last_one {A} (l : list A) x : drop_last 1 (l ++ [x]) = l.
Proof. change 1%nat with (length [x]). apply drop_last_app. Qed.

Lemma Ok_inj {A} (a b : A) : Ok a = Ok b -> a = b.
Proof. intros H. congruence. Qed.
