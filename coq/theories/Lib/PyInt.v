(* CPython's int(str) restricted to ASCII input: surrounding white space is stripped, an optional sign, then decimal
   digits with single underscores between digits.  Shared by the hand-written model (Model/WalletUtils.v) and by the
   MiniPy interpreter (Py/Interp.v); validated against CPython by the C17 correspondence and by the PySem stream. *)
From BHW Require Import Lib.Base.

(* str.strip() on ASCII text removes 9..13 and 28..32 (str.isspace) *)
Definition is_ws (c : Z) : bool := ((9 <=? c) && (c <=? 13)) || ((28 <=? c) && (c <=? 32)).
(* int() on ASCII text: PyLong_FromString strips with the C-locale isspace (9..13 and 32) only; the separators 28..31 that
   str.strip() removes are NOT stripped by int() -- int("5\x1f") raises ValueError *)
Definition is_ws_int (c : Z) : bool := ((9 <=? c) && (c <=? 13)) || (c =? 32).
Definition is_digit (c : Z) : bool := (48 <=? c) && (c <=? 57).

Fixpoint lstrip (s : (list Z)) : (list Z) :=
  match s with c :: r => if is_ws c then lstrip r else s | [] => [] end.
Definition strip (s : (list Z)) : (list Z) := rev (lstrip (rev (lstrip s))).
Fixpoint lstrip_int (s : (list Z)) : (list Z) :=
  match s with c :: r => if is_ws_int c then lstrip_int r else s | [] => [] end.
Definition strip_int (s : (list Z)) : (list Z) := rev (lstrip_int (rev (lstrip_int s))).

(* after the first digit: digits, or '_' that must be followed by a digit *)
Fixpoint digits_val (s : (list Z)) (acc : Z) (prev_us : bool) : res Z :=
  match s with
  | [] => if prev_us then Err else Ok acc
  | c :: r => if is_digit c then digits_val r (acc * 10 + (c - 48)) false
              else if (c =? 95) && negb prev_us then digits_val r acc true
              else Err
  end.
Definition unsigned_val (s : (list Z)) : res Z :=
  match s with
  | c :: r => if is_digit c then digits_val r (c - 48) false else Err
  | [] => Err
  end.
Definition py_int (s : (list Z)) : res Z :=
  match strip_int s with
  | 43 :: r => unsigned_val r                      (* '+' *)
  | 45 :: r => rmap Z.opp (unsigned_val r)         (* '-' *)
  | r => unsigned_val r
  end.


(* str.encode("utf-8") on a list of code points; lone surrogates (U+D800..U+DFFF) and values outside the Unicode range are
   refused (CPython raises UnicodeEncodeError) *)
Definition utf8_cp (c : Z) : list Z :=
  if c <? 128 then [c]
  else if c <? 2048 then [192 + c / 64; 128 + c mod 64]
  else if c <? 65536 then [224 + c / 4096; 128 + (c / 64) mod 64; 128 + c mod 64]
  else [240 + c / 262144; 128 + (c / 4096) mod 64; 128 + (c / 64) mod 64; 128 + c mod 64].
Definition utf8_ok (c : Z) : bool := (0 <=? c) && (c <? 1114112) && negb ((55296 <=? c) && (c <? 57344)).
Definition utf8_encode (s : list Z) : option (list Z) :=
  if forallb utf8_ok s then Some (flat_map utf8_cp s) else None.

(* base64.b64encode, standard alphabet, '=' padding *)
Definition b64_alphabet : list Z :=
  map Z.of_nat (seq 65 26) ++ map Z.of_nat (seq 97 26) ++ map Z.of_nat (seq 48 10) ++ [43; 47].
Definition b64c (v : Z) : Z := nth (Z.to_nat v) b64_alphabet 0.
Fixpoint b64encode (b : list Z) : list Z :=
  match b with
  | [] => []
  | [x] => [b64c (x / 4); b64c ((x mod 4) * 16); 61; 61]
  | [x; y] => [b64c (x / 4); b64c ((x mod 4) * 16 + y / 16); b64c ((y mod 16) * 4); 61]
  | x :: y :: z :: r =>
      b64c (x / 4) :: b64c ((x mod 4) * 16 + y / 16) :: b64c ((y mod 16) * 4 + z / 64) :: b64c (z mod 64) :: b64encode r
  end.

