(* Radix conversion for an arbitrary base b >= 2: the reusable core behind
   Base58, int.to_bytes / int.from_bytes, varint, ser32/ser256, decimal printing. *)
From BHW Require Import Lib.Base.

Section Radix.
Variable b : Z.
Hypothesis Hb : 2 <= b.

Definition digit_ok (d : Z) : Prop := 0 <= d < b.
Definition digits_ok (ds : list Z) : Prop := Forall digit_ok ds.

(* little-endian value *)
Fixpoint of_le (ds : list Z) : Z :=
  match ds with [] => 0 | d :: r => d + b * of_le r end.

(* minimal little-endian digits, explicit fuel *)
Fixpoint to_le (fuel : nat) (n : Z) : list Z :=
  match fuel with
  | O => []
  | S f => if n <=? 0 then [] else (n mod b) :: to_le f (n / b)
  end.

(* fixed-width little-endian digits *)
Fixpoint to_le_fixed (len : nat) (n : Z) : list Z :=
  match len with
  | O => []
  | S l => (n mod b) :: to_le_fixed l (n / b)
  end.

(* big-endian accumulate, as Python loops write it *)
Definition of_be (ds : list Z) : Z := fold_left (fun acc d => acc * b + d) ds 0.

Lemma of_le_nonneg ds : digits_ok ds -> 0 <= of_le ds.
Proof.
  induction 1 as [|d r Hd _ IH]; simpl; [lia|]. unfold digit_ok in Hd. nia.
Qed.

Lemma of_le_bound ds : digits_ok ds -> of_le ds < b ^ Z.of_nat (length ds).
Proof.
  induction 1 as [|d r Hd Hr IH]; [simpl; lia|].
  cbn [of_le length]. rewrite Nat2Z.inj_succ, Z.pow_succ_r by lia.
  unfold digit_ok in Hd. pose proof (of_le_nonneg r Hr). nia.
Qed.

Lemma of_le_app xs ys :
  of_le (xs ++ ys) = of_le xs + b ^ Z.of_nat (length xs) * of_le ys.
Proof.
  induction xs as [|x xs IH]; [cbn [app of_le length]; change (Z.of_nat 0) with 0; rewrite Z.pow_0_r; lia|].
  cbn [app of_le length]. rewrite IH, Nat2Z.inj_succ, Z.pow_succ_r by lia. ring.
Qed.

Lemma fold_be_acc ds a :
  fold_left (fun acc d => acc * b + d) ds a
  = a * b ^ Z.of_nat (length ds) + of_le (rev ds).
Proof.
  revert a; induction ds as [|d ds IH]; intros a; [simpl; lia|].
  cbn [fold_left rev length]. rewrite IH, of_le_app, rev_length.
  cbn [of_le]. rewrite Nat2Z.inj_succ, Z.pow_succ_r by lia. ring.
Qed.

Lemma of_be_rev ds : of_be ds = of_le (rev ds).
Proof. unfold of_be. rewrite fold_be_acc. lia. Qed.

Lemma to_le_zero fuel n : n <= 0 -> to_le fuel n = [].
Proof. intros H. destruct fuel; simpl; auto. destruct (n <=? 0) eqn:E; auto. lia. Qed.

Lemma of_le_to_le fuel n :
  0 <= n -> n < 2 ^ Z.of_nat fuel -> of_le (to_le fuel n) = n.
Proof.
  revert n; induction fuel as [|f IH]; intros n H0 Hlt.
  - simpl in *. lia.
  - cbn [to_le]. destruct (n <=? 0) eqn:E; [simpl; lia|].
    cbn [of_le]. rewrite IH.
    + pose proof (Z.div_mod n b). lia.
    + apply Z.div_pos; lia.
    + rewrite Nat2Z.inj_succ, Z.pow_succ_r in Hlt by lia.
      assert (n / b <= n / 2) by (apply Z.div_le_compat_l; lia).
      assert (n / 2 < 2 ^ Z.of_nat f) by (apply Z.div_lt_upper_bound; lia). lia.
Qed.

Lemma to_le_digits_ok fuel n : digits_ok (to_le fuel n).
Proof.
  revert n; induction fuel as [|f IH]; intros n; simpl; [constructor|].
  destruct (n <=? 0); constructor; try apply IH. unfold digit_ok. apply Z.mod_pos_bound. lia.
Qed.

(* "no leading zero" for a little-endian list = last element non-zero *)
Definition le_canon (ds : list Z) : Prop := ds = [] \/ last ds 0 <> 0.

Lemma of_le_pos ds : digits_ok ds -> ds <> [] -> last ds 0 <> 0 -> 0 < of_le ds.
Proof.
  induction 1 as [|d r Hd Hr IH]; intros Hne Hl; [congruence|].
  cbn [of_le]. unfold digit_ok in Hd. destruct r as [|d' r'].
  - simpl in *. lia.
  - assert (0 < of_le (d' :: r')) by (apply IH; [discriminate|exact Hl]). nia.
Qed.

Lemma to_le_of_le fuel ds :
  digits_ok ds -> le_canon ds -> of_le ds < 2 ^ Z.of_nat fuel ->
  to_le fuel (of_le ds) = ds.
Proof.
  revert fuel; induction ds as [|d r IH]; intros fuel Hok Hc Hlt.
  - simpl. apply to_le_zero. lia.
  - inversion Hok as [|? ? Hd Hr]; subst. unfold digit_ok in Hd.
    assert (Hpos : 0 < of_le (d :: r)).
    { apply of_le_pos; auto; [discriminate|]. destruct Hc as [Hc|Hc]; [discriminate|exact Hc]. }
    destruct fuel as [|f]; [change (2 ^ Z.of_nat 0) with 1 in Hlt; lia|].
    cbn [to_le]. destruct (of_le (d :: r) <=? 0) eqn:E; [lia|].
    cbn [of_le] in *. pose proof (of_le_nonneg r Hr).
    assert (Hm : (d + b * of_le r) mod b = d).
    { symmetry. apply Z.mod_unique with (q := of_le r); lia. }
    assert (Hq : (d + b * of_le r) / b = of_le r).
    { symmetry. apply Z.div_unique with (r := d); lia. }
    rewrite Hm, Hq. f_equal. apply IH; auto.
    + destruct r as [|d' r']; [left; reflexivity|]. right.
      destruct Hc as [Hc|Hc]; [discriminate|exact Hc].
    + rewrite Nat2Z.inj_succ, Z.pow_succ_r in Hlt by lia. nia.
Qed.

Lemma to_le_canon fuel n : n < 2 ^ Z.of_nat fuel -> le_canon (to_le fuel n).
Proof.
  revert n; induction fuel as [|f IH]; intros n Hlt; [left; reflexivity|].
  cbn [to_le]. destruct (n <=? 0) eqn:E; [left; reflexivity|]. right.
  assert (Hq : n / b < 2 ^ Z.of_nat f).
  { rewrite Nat2Z.inj_succ, Z.pow_succ_r in Hlt by lia.
    assert (n / b <= n / 2) by (apply Z.div_le_compat_l; lia).
    assert (n / 2 < 2 ^ Z.of_nat f) by (apply Z.div_lt_upper_bound; lia). lia. }
  specialize (IH (n / b) Hq).
  destruct (to_le f (n / b)) as [|d r] eqn:Er.
  - simpl. assert (n / b <= 0).
    { destruct (Z_le_gt_dec (n / b) 0) as [|Hgt]; auto.
      assert (of_le (to_le f (n / b)) = n / b) by (apply of_le_to_le; lia).
      rewrite Er in H. simpl in H. lia. }
    assert (n / b = 0) by (pose proof (Z.div_pos n b); lia).
    pose proof (Z.div_mod n b). lia.
  - destruct IH as [IH|IH]; [discriminate|]. exact IH.
Qed.

(* ---- fixed width ---- *)
Lemma to_le_fixed_length len n : length (to_le_fixed len n) = len.
Proof. revert n; induction len; intros; simpl; auto. Qed.

Lemma to_le_fixed_ok len n : digits_ok (to_le_fixed len n).
Proof.
  revert n; induction len as [|l IH]; intros n; simpl; constructor; try apply IH.
  unfold digit_ok. apply Z.mod_pos_bound. lia.
Qed.

Lemma of_le_to_le_fixed len n :
  0 <= n -> n < b ^ Z.of_nat len -> of_le (to_le_fixed len n) = n.
Proof.
  revert n; induction len as [|l IH]; intros n H0 Hlt.
  - simpl in *. lia.
  - cbn [to_le_fixed of_le]. rewrite IH.
    + pose proof (Z.div_mod n b). lia.
    + apply Z.div_pos; lia.
    + rewrite Nat2Z.inj_succ, Z.pow_succ_r in Hlt by lia.
      apply Z.div_lt_upper_bound; lia.
Qed.

Lemma to_le_fixed_of_le ds :
  digits_ok ds -> to_le_fixed (length ds) (of_le ds) = ds.
Proof.
  induction 1 as [|d r Hd Hr IH]; [reflexivity|].
  unfold digit_ok in Hd. cbn [length to_le_fixed of_le].
  pose proof (of_le_nonneg r Hr).
  assert (Hm : (d + b * of_le r) mod b = d).
  { symmetry. apply Z.mod_unique with (q := of_le r); lia. }
  assert (Hq : (d + b * of_le r) / b = of_le r).
  { symmetry. apply Z.div_unique with (r := d); lia. }
  rewrite Hm, Hq, IH. reflexivity.
Qed.

(* zeros at the most-significant end do not change the value *)
Lemma of_le_app_zeros ds k : of_le (ds ++ repeat 0 k) = of_le ds.
Proof.
  rewrite of_le_app. assert (of_le (repeat 0 k) = 0).
  { induction k; simpl; lia. } rewrite H. lia.
Qed.

Lemma of_le_inj_fixed xs ys :
  digits_ok xs -> digits_ok ys -> length xs = length ys ->
  of_le xs = of_le ys -> xs = ys.
Proof.
  intros Hx Hy Hl He.
  rewrite <- (to_le_fixed_of_le xs Hx), <- (to_le_fixed_of_le ys Hy).
  rewrite Hl, He. reflexivity.
Qed.

End Radix.

Lemma of_le_cons b d r : of_le b (d :: r) = d + b * of_le b r.
Proof. reflexivity. Qed.
Lemma of_le_nil b : of_le b [] = 0.
Proof. reflexivity. Qed.
