(* Small list utilities used by the models (all total, all computable). *)
From BHW Require Import Lib.Base.

Fixpoint map_res {A B} (f : A -> res B) (l : list A) : res (list B) :=
  match l with
  | [] => Ok []
  | x :: r => do y <- f x; do ys <- map_res f r; Ok (y :: ys)
  end.

Lemma map_res_ok {A B} (f : A -> res B) (g : A -> B) l :
  (forall x, In x l -> f x = Ok (g x)) -> map_res f l = Ok (map g l).
Proof.
  induction l as [|x r IH]; intros H; simpl; auto.
  rewrite (H x) by (left; reflexivity). simpl. rewrite IH; auto.
  intros y Hy. apply H. right; exact Hy.
Qed.

Lemma map_res_err {A B} (f : A -> res B) l x :
  In x l -> f x = Err -> map_res f l = Err.
Proof.
  induction l as [|y r IH]; intros Hin Hx; [destruct Hin|].
  simpl. destruct Hin as [->|Hin].
  - rewrite Hx. reflexivity.
  - destruct (f y); simpl; auto. rewrite IH; auto.
Qed.

Lemma map_res_length {A B} (f : A -> res B) l ys :
  map_res f l = Ok ys -> length ys = length l.
Proof.
  revert ys; induction l as [|x r IH]; intros ys H; simpl in *.
  - inversion H; reflexivity.
  - destruct (f x); simpl in H; [|discriminate].
    destruct (map_res f r) eqn:E; simpl in H; [|discriminate].
    inversion H; subst. simpl. f_equal. apply IH. reflexivity.
Qed.

Fixpoint index_of (c : Z) (l : list Z) : option Z :=
  match l with
  | [] => None
  | x :: r => if x =? c then Some 0 else option_map Z.succ (index_of c r)
  end.

Lemma index_of_some c l i :
  index_of c l = Some i ->
  0 <= i < Z.of_nat (length l) /\ nth_error l (Z.to_nat i) = Some c.
Proof.
  revert i; induction l as [|x r IH]; intros i H; simpl in H; [discriminate|].
  destruct (x =? c) eqn:E.
  - inversion H; subst. simpl. split; [lia|]. f_equal. lia.
  - destruct (index_of c r) as [j|] eqn:Ej; simpl in H; [|discriminate].
    inversion H; subst. destruct (IH j eq_refl) as [Hr Hn].
    split; [simpl length; lia|].
    replace (Z.to_nat (Z.succ j)) with (S (Z.to_nat j)) by lia. simpl. exact Hn.
Qed.

Lemma index_of_none c l : index_of c l = None <-> ~ In c l.
Proof.
  induction l as [|x r IH]; simpl; [tauto|].
  destruct (x =? c) eqn:E.
  - split; [discriminate|]. intros H. exfalso. apply H. left. lia.
  - destruct (index_of c r) eqn:Er; simpl.
    + split; [discriminate|]. intros H. exfalso.
      assert (~ In c r) by tauto. apply IH in H0. discriminate.
    + split; auto. intros _ [H|H]; [lia|]. apply IH in H; auto.
Qed.

Lemma index_of_nth c l n :
  NoDup l -> nth_error l n = Some c -> index_of c l = Some (Z.of_nat n).
Proof.
  revert n; induction l as [|x r IH]; intros n Hnd Hn; [destruct n; discriminate|].
  inversion Hnd as [|? ? Hnotin Hnd']; subst.
  destruct n as [|n]; simpl in *.
  - inversion Hn; subst. rewrite Z.eqb_refl. reflexivity.
  - destruct (x =? c) eqn:E.
    + exfalso. apply Hnotin. assert (x = c) by lia. subst. eapply nth_error_In; eauto.
    + rewrite (IH n Hnd' Hn). simpl. f_equal. lia.
Qed.

Fixpoint count_leading (x : Z) (l : list Z) : nat :=
  match l with
  | y :: r => if y =? x then S (count_leading x r) else O
  | [] => O
  end.

Lemma count_leading_repeat x n r :
  match r with [] => True | y :: _ => y <> x end ->
  count_leading x (repeat x n ++ r) = n.
Proof.
  intros H. induction n as [|n IH]; simpl.
  - destruct r as [|y r']; simpl; auto. destruct (y =? x) eqn:E; auto. lia.
  - rewrite Z.eqb_refl. f_equal. exact IH.
Qed.

Lemma split_leading x l :
  exists r, l = repeat x (count_leading x l) ++ r /\
            match r with [] => True | y :: _ => y <> x end.
Proof.
  induction l as [|y l IH]; simpl.
  - exists []. auto.
  - destruct (y =? x) eqn:E.
    + destruct IH as [r [H1 H2]]. exists r. split; auto. simpl.
      assert (y = x) by lia. subst. f_equal. exact H1.
    + exists (y :: l). split; auto. lia.
Qed.

Fixpoint nodupb (l : list Z) : bool :=
  match l with
  | [] => true
  | x :: r => negb (existsb (Z.eqb x) r) && nodupb r
  end.

Lemma nodupb_spec l : nodupb l = true -> NoDup l.
Proof.
  induction l as [|x r IH]; simpl; intros H; constructor.
  - apply andb_true_iff in H as [H _]. intros Hin.
    assert (existsb (Z.eqb x) r = true).
    { apply existsb_exists. exists x. split; auto. apply Z.eqb_refl. }
    rewrite H0 in H. discriminate.
  - apply IH. apply andb_true_iff in H as [_ H]. exact H.
Qed.

Definition memb (c : Z) (l : list Z) : bool := existsb (Z.eqb c) l.
Lemma memb_spec c l : memb c l = true <-> In c l.
Proof.
  unfold memb. rewrite existsb_exists. split.
  - intros [x [Hin He]]. assert (c = x) by lia. subst; auto.
  - intros H. exists c. split; auto. apply Z.eqb_refl.
Qed.

Lemma last_In {A} (l : list A) d : l <> [] -> In (last l d) l.
Proof.
  intros H. rewrite (app_removelast_last d H) at 2. apply in_or_app. right. left. reflexivity.
Qed.

Lemma rev_last_cons {A} (l : list A) d : l <> [] -> rev l = last l d :: rev (removelast l).
Proof.
  intros H. rewrite (app_removelast_last d H) at 1. rewrite rev_app_distr. reflexivity.
Qed.

Lemma app_inv_len {A} (a a' b b' : list A) :
  length a = length a' -> a ++ b = a' ++ b' -> a = a' /\ b = b'.
Proof.
  revert a'; induction a as [|x a IH]; intros [|y a'] Hl H; simpl in *; try discriminate; auto.
  inversion H; subst. destruct (IH a' ltac:(lia) H2) as [-> ->]. auto.
Qed.
